#!/bin/sh
# tools/reseed_all.sh [jobs] - re-run tools/try_seed.sh for every stored seeded change (detection regression test).
# Prints one line per change; changes recorded as rejected are skipped.
HERE="$(cd "$(dirname "$0")/.." && pwd)"; cd "$HERE"
J="${1:-3}"
ls seeded | grep '^C[0-9][0-9]' | while read id; do
  grep -q rejected_by_verifier "seeded/$id/meta.json" 2>/dev/null && continue
  echo "$id"
done | xargs -P "$J" -I{} sh -c 'r="$(tools/try_seed.sh {} 2>&1 | tail -1)"; echo "{}: $r"'
