#!/venv/bin/python
"""tools/mkmutant.py <name> <file> <<< python-literal list of (old, new) edits   (helper for authoring mutants/)

Used as a library: mk(name, [(file, old, new), ...]) writes mutants/<name>.patch as a unified diff
against the current /repo working tree (each `old` must occur exactly once)."""
import os
import shutil
import subprocess
import tempfile

HERE = os.path.dirname(os.path.dirname(os.path.abspath(__file__)))


def mk(name, edits):
    tmp = tempfile.mkdtemp(prefix='/tmp/verif-mk')
    try:
        for d in ('a', 'b'):
            subprocess.check_call(['rsync', '-a', '--exclude', '.git', '--exclude', '__pycache__', '/repo/', '%s/%s/' % (tmp, d)])
        for f, old, new in edits:
            p = os.path.join(tmp, 'b', f)
            s = open(p).read()
            assert s.count(old) == 1, (name, f, s.count(old))
            open(p, 'w').write(s.replace(old, new))
        out = subprocess.run(['diff', '-ruN', 'a', 'b'], cwd=tmp, capture_output=True, text=True).stdout
        assert out, 'empty diff'
        open(os.path.join(HERE, 'mutants', name + '.patch'), 'w').write(out)
    finally:
        shutil.rmtree(tmp)
