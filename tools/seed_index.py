#!/venv/bin/python
"""Regenerates seeded/INDEX.md and the verifier's confirmation block in each seeded/<id>/meta.json."""
import glob
import json
import os

HERE = os.path.dirname(os.path.dirname(os.path.abspath(__file__)))
FIRST_TRY = {'C01': True, 'C02': True, 'C03': False, 'C04': True, 'C05': False, 'C06': False, 'C07': True, 'C08': True, 'C09': True,
             'C10': False, 'C11': True, 'C12': False, 'C13': True, 'C14': True, 'C15': True, 'C16': True, 'C17': True, 'C18': False,
             'C19': False, 'C20': True,
             'C01b': True, 'C03b': False, 'C04b': True, 'C05b': True, 'C06b': True, 'C07b': True, 'C09b': True, 'C10b': False,
             'C13b': True, 'C16b': False, 'C19b': False, 'C20b': True,
             'C02b': True, 'C08b': True, 'C11b': False, 'C12b': True, 'C14b': True, 'C15b': True, 'C17b': True, 'C18b': True,
             'C01c': True, 'C02c': True, 'C03c': True, 'C04c': True, 'C05c': True, 'C06c': False, 'C07c': True, 'C08c': True,
             'C09c': True, 'C10c': False, 'C11c': True, 'C12c': True, 'C14c': True, 'C15c': True, 'C16c': False, 'C17c': True,
             'C18c': True, 'C19c': False, 'C20c': False, 'C13d': False,
             'C01e': True, 'C02e': False, 'C03e': False, 'C04e': False, 'C05e': False, 'C06e': True, 'C07e': True, 'C08e': True, 'C09e': False,
             'C10e': False, 'C11e': False, 'C12e': True, 'C13e': True, 'C14e': True, 'C15e': False, 'C16e': True, 'C17e': True,
             'C18e': True, 'C19e': True, 'C20e': False,
             'C01f': True, 'C02f': False, 'C03f': False, 'C04f': True, 'C05f': False, 'C06f': True, 'C07f': True, 'C08f': False, 'C09f': True,
             'C10f': True, 'C11f': True, 'C12f': False, 'C13f': True, 'C14f': False, 'C15f': True, 'C16f': False, 'C17f': False,
             'C18f': True, 'C19f': False, 'C20f': True,
             'C01g': True, 'C02g': False, 'C03g': False, 'C04g': True, 'C05g': False, 'C06g': True, 'C07g': True, 'C08g': False, 'C09g': True,
             'C10g': False, 'C11g': True, 'C12g': True, 'C13g': False, 'C14g': True, 'C15g': True, 'C16g': False, 'C17g': False,
             'C18g': True, 'C19g': False, 'C20g': True,
             'C01h': True, 'C02h': True, 'C03h': False, 'C04h': False, 'C05h': True, 'C06h': True, 'C07h': True, 'C08h': False, 'C09h': True,
             'C10h': True, 'C11h': True, 'C12h': False, 'C13h': True, 'C14h': True, 'C15h': True, 'C16h': False, 'C17h': False,
             'C18h': False, 'C19h': False, 'C20h': True,
             'C01i': True, 'C02i': False, 'C03i': True, 'C04i': False, 'C05i': False, 'C06i': True, 'C07i': True, 'C08i': True, 'C09i': True,
             'C10i': False, 'C11i': True, 'C12i': True, 'C13i': False, 'C14i': True, 'C15i': True, 'C16i': True, 'C17i': True,
             'C18i': False, 'C19i': False, 'C20i': False,
             'C01j': True, 'C02j': True, 'C03j': False, 'C04j': False, 'C05j': True, 'C06j': True, 'C07j': True, 'C08j': False, 'C09j': True,
             'C10j': False, 'C11j': True, 'C12j': True, 'C13j': True, 'C14j': True, 'C15j': True, 'C16j': True, 'C17j': True,
             'C18j': False, 'C19j': False, 'C20j': True,
             'C01k': False, 'C02k': True, 'C03k': False, 'C04k': False, 'C05k': True, 'C06k': True, 'C07k': True, 'C08k': False, 'C09k': True,
             'C10k': False, 'C11k': False, 'C12k': True, 'C13k': False, 'C14k': False, 'C15k': False, 'C16k': True, 'C17k': True,
             'C18k': False, 'C19k': True, 'C20k': False,
             'C01m': True, 'C02m': False, 'C03m': False, 'C04m': True, 'C05m': True, 'C06m': True, 'C07m': True, 'C08m': True, 'C09m': True,
             'C10m': True, 'C11m': True, 'C12m': True, 'C13m': True, 'C14m': True, 'C15m': False, 'C16m': True, 'C17m': False,
             'C18m': False, 'C19m': False, 'C20m': True,
             'C01n': False, 'C02n': False, 'C03n': True, 'C04n': False, 'C05n': True, 'C06n': True, 'C07n': True, 'C08n': True, 'C09n': False,
             'C10n': False, 'C11n': False, 'C12n': True, 'C13n': False, 'C14n': False, 'C15n': False, 'C16n': True, 'C17n': True,
             'C18n': False, 'C19n': True, 'C20n': False,
             'C01p': True, 'C02p': True, 'C03p': True, 'C04p': True, 'C05p': True, 'C06p': True, 'C07p': True, 'C08p': True, 'C09p': True,
             'C10p': True, 'C11p': True, 'C12p': True, 'C13p': False, 'C14p': True, 'C15p': True, 'C16p': True, 'C17p': True,
             'C18p': True, 'C19p': False, 'C20p': True,
             'C02q': False, 'C03q': True, 'C04q': True, 'C08q': True, 'C10q': True, 'C13q': True, 'C16q': False, 'C18q': False,
             'C19q': True, 'C20q': True}
REJECTED = {
    'C18b': 'superseded: caught by C18 (send:Updates:under) until repair e4f0c24 moved the counting of sent UPDATEs into '
            'write_tcp_thread() - the very function this change calls for the queued UPDATE - so the statistic is right again with the '
            'change applied (confirmed by stepping through the scripted history queue-update, KEEPALIVE, KEEPALIVE on the changed tree)',
    'C18h': 'superseded: caught by C18 (send:Updates:over) until repair e4f0c24 moved the counting to write time; since then the '
            'change is consistent with the statistic and no longer a C18 violation',
    'C13c': 'not confirmed: the change only matters when dataReceived() is called again after the agent\'s own '
            'transport.loseConnection(); Twisted\'s TCP transport stops reading at that point (FileDescriptor.loseConnection -> '
            'stopReading), so the changed and the original code behave identically under the real runtime. The sub-agent\'s '
            'fake transport kept delivering. A replacement was requested (C13d).',
}
STRENGTHEN = {
    'C03': 'the C03 simulator tied the configured keep_alive_time to hold/3; it is now an independent configuration dimension {60,1,7,600}',
    'C05': 'histories now also end sessions by version-error NOTIFICATION, bad marker, early UPDATE, manual stop/start and hold expiry',
    'C06': 'new shapes "attributes + withdrawals without NLRI" and "attributes only"',
    'C10': 'reference encodings in the AS-number width that was NOT negotiated (unmutated) and sessions in 2-octet mode were added',
    'C12': 'the connectionLost that follows the agent\'s own loseConnection became an explicit, schedulable event ("io")',
    'C18': 'REST route-refresh for a family the peer did not advertise, malformed route-refresh and un-constructible update requests were added',
    'C19': 'two routes with different labels in one VPNv4 UPDATE and two rules in one flowspec UPDATE were added',
    'C03b': 'the first KEEPALIVE may now arrive some time after the OPEN (ka_delay in {small, H/3, H/2, 2H/3, H-eps}); before, OPEN and first KEEPALIVE always came at the same instant',
    'C10b': 'the hostile sequence can now be delivered in the 2nd or 3rd session of the same agent (earlier sessions ended by peer close / bad marker / Cease / silence) and NOTIFICATION bodies include (2,1); the change was caught by C02 from the start',
    'C16b': 'OPTIONS was added to the method dimension of the matrix (an automatic empty 200 reply is tolerated, any effect is not)',
    'C06c': 'the change is in the REST layer (LOCAL_PREF 0 replaced by the iBGP default); C06 got a REST facet (the generated cases requested through POST /send/update on eBGP/iBGP sessions in both AS modes, decoded from the wire, plus a grid session kind x LOCAL_PREF x MED boundary values) and C16 got the same grid and a 2-octet-AS session dimension; both now catch it',
    'C10c': 'the negotiated hold time became a dimension of the hostile-input cases ({180, 90, 3, 0}); before, every session ran with hold time 180, so a malformed UPDATE re-arming a stopped hold timer was never seen',
    'C13d': 'operator commands may now come before the agent\'s first automatic start (the start-up delay): C13 has a "preboot" stop whose continuation begins with the boot event, C12 walks / BFS prefixes may start with start / stop before boot',
    'C02e': 'timer configurations with idle_hold_time 0 (and a 3/2/1 s one) were added; before, every configuration had a positive idle hold time',
    'C03e': 'arrivals now include body-malformed UPDATEs (tolerated by the agent, C10) next to KEEPALIVEs and well-formed UPDATEs of every family',
    'C04e': 'frames of a known type whose length violates the per-type rule of RFC 4271 6.1 (OPEN < 29, NOTIFICATION < 21, KEEPALIVE != 19) are now violations in the stream generator and the header grid (this also exposed two genuine defects, F054/F055); same change as C18c, which C18 caught at once',
    'C05e': 'the peer BGP identifier became a per-session dimension (a peer coming back with another router-id)',
    'C09e': 'caught by C05, whose subject it is (AS-number width of a session follows the capabilities both sides advertised); C09 checks the codec and is not affected by a session-layer change',
    'C10e': 'caught by C02 and C05 from the start (the next OPEN differs from a fresh one); C10 itself now has an earlier session with a one-capability peer OPEN that the agent ends, and an absolute oracle for the good messages (a well-formed UPDATE in the session\'s AS mode is reported as exactly that), not only the comparison with the control run',
    'C11e': 'new "TLV tower" inputs: every registered link-state / prefix-SID TLV type nested inside itself as deep as 4000 octets allow, for 14 lengths of fixed octets in front of the sub-TLVs and 5 innermost values (missing, empty, cut short); the work budget then exposes decoding whose cost grows exponentially with the nesting depth',
    'C15e': 'the BGP-LS NLRI pool now holds the same node-descriptor octets under every Protocol-ID (1-7), so that a list can mix NLRIs whose identical descriptors must be read differently',
    'C20e': 'update payloads of 500 / 1000 prefixes (records of 10-20 KB, longer than any BGP message) in histories, torn writes (offsets up to 30000) and the exhaustive alphabet',
    'C02f': 'caught by C13 from the start (after a manual start a dropped session must come back by itself); C02 histories now contain operator stop ... start cycles (if the last operator command of a history is a stop, the operator starts the peer before the cooperative phase)',
    'C03f': 'arrival kinds K+S / U+S: at the instant of a peer message the operator has the agent send an UPDATE through REST; what the agent sends must not disturb its own keepalive schedule',
    'C05f': 'the connectionLost that follows the agent\'s own close can now arrive only after the next connection has been made (late_lost; the simulator\'s deferred I/O), at most some seconds late',
    'C08f': 'construct-only kinds vpn4/vpn6 with a label stack of 2-3 labels (C07 keeps one label because the decoder reads one)',
    'C12f': 'the simulated transport now has a socket handle whose setsockopt(TCP_MD5SIG) refuses keys longer than 80 octets like the Linux kernel; C12 walks got md5 configurations (none, valid, 81 characters)',
    'C14f': 'OPENs are padded with one more unknown capability so that the Optional Parameters Length is exactly 128 / 253 / 254 / 255',
    'C16f': 'send cases got a hold-time dimension (180 / 3 / 0); on a session without timers an extra KEEPALIVE after the UPDATE is visible at once',
    'C17f': 'the REST round trip also runs on a session whose local speaker is configured without the 4-octet-AS capability and on an iBGP session with rib on',
    'C19f': 'sessions are now also ended by a peer NOTIFICATION, a header error and operator stop/start (the agent closes), not only by the peer closing TCP',
    'C02g': 'the well-behaved peer of the cooperative phase may come back with another BGP identifier than the history used (caught by C05 since round 4)',
    'C03g': 'caught by C05 and C02 from the start (negotiated hold time leaking into the next OPEN); C03 itself now optionally runs an earlier session with another negotiated hold time, ended by stop/start, version-error NOTIFICATION, header error or peer close, before the session it measures',
    'C05g': 'configuration local_addr 0.0.0.0 with a simulated multi-homed host: successive connections leave through different local addresses (simnet egress_hosts), the BGP identifier must stay the one of the first',
    'C08g': 'SR-TE policy names with non-ASCII text (refused by the unchanged encoder)',
    'C10g': 'malformed UPDATEs padded to the maximum message size of 4096 octets (an extra optional transitive attribute or filler)',
    'C13g': 'after a manual-start on an Established session the pending timers must be unchanged and the session must go on with its negotiated timers: KEEPALIVE every H/3 and still up three hold times later',
    'C16g': 'sessions whose local speaker is configured without the 4-octet-AS capability while the peer advertises it (2-octet encoding on the wire)',
    'C17g': 'community lists at the one-octet length edges: 15/16/31 extended, 31/32/63 standard, 10/11/21 large communities',
    'C19g': 'the same prefix listed twice in one UPDATE; a version counter may not increase more often than routes changed',
    'C03h': 'hold times of every residue mod 3 (5, 8, 20, 65534 and random 3..400): H/3 is not always a whole number of seconds',
    'C04h': 'streams of 300 / 1100 / 3000 messages delivered in one segment and cut in several ways',
    'C08h': 'nlri / withdraw lists containing something that is not an IPv4 prefix (IPv6 prefixes, out-of-range lengths, junk): refused, or built well-formed.  This exposed a genuine defect (F059: ::1/128 was written as a malformed IPv4 prefix); after its repair the seeded patch was rebased to remove the new check (original kept as patch.orig.diff)',
    'C12h': 'configuration hold_time 65536 (the OPEN cannot be built, the session never leaves Connect although TCP is up) added to the walk configurations',
    'C16h': 'credential cases wrong user + empty password, both empty, wrong user + "None"',
    'C17h': 'extended-community lists of 32 and 40 elements (more than a one-octet length holds): refusing them is accepted, the requests that follow in the same process must still be answered correctly',
    'C18h': 'REST sends whose hand-over to the reactor is carried out only after the next event (rest-update-late / rest-bin-late).  On the unchanged tree this exposed a genuine defect (F060: counted when queued, lost when the peer closes first); after the repair (count at write time) the seeded change no longer breaks C18 - it drops exactly the messages that are not counted any more - and is kept for the record only',
    'C19h': 'MP_REACH and MP_UNREACH of one family in one UPDATE / REST request (operation mp-both), also in the exhaustive alphabet',
    'C02i': 'C02 got shards in the multi-connection regime of C12 (connect-retry below the TCP timeout, the connectionLost after the agent\'s own close as an event of its own), handed over to the cooperative peer like the others; C13\'s new quick-restart variant catches the change as well',
    'C04i': 'the agent\'s internal request queue may hold a handler request (serialisable, not serialisable, both) when the stream arrives',
    'C05i': 'before the OPEN under observation the peer may send a well-framed OPEN whose optional parameters cannot be decoded; if the agent lets it pass, the real OPEN is negotiated as a first one',
    'C10i': 'when the hostile message comes during the handshake and is let pass, the peer completes the handshake on the same connection and the absolute oracle for good UPDATEs applies to the session that results',
    'C13i': 'quick-restart variant: manual-start immediately after the stop (before the old connectionLost is delivered), then late completions / refusals / timers, then the cooperative peer must get a session',
    'C18i': 'NOTIFICATION events whose data is not valid UTF-8 (Cease 6/2 and 6/4) and code 7 in the walks; the C01 notification grid got the same data values',
    'C19i': 'peer announcements / withdrawals whose prefixes carry set bits beyond the prefix length (ann / wd "dirty"), one more prefix of unaligned length',
    'C20i': 'update payloads that neither json library can serialise: tuple keys, non-UTF-8 octet strings, sets, nested',
    'C03j': 'caught by C01 from the start (second OPEN in OpenConfirm must change nothing); C03 itself now may send a second OPEN with another hold time while the agent waits for the KEEPALIVE - if the agent lets it pass, the timers are those of the first negotiation',
    'C04j': 'the peer OPEN of handshake-mode streams may advertise capabilities the agent does not have (6 = extended message, 70, 9, 71): the length bounds stay 19..4096',
    'C08j': 'new kind: ADD-PATH encoding (Update.construct(..., addpath=True)) with path identifiers 0, edges, missing, None - refused, or every entry is identifier + prefix on the wire',
    'C10j': 'the connectionLost of an earlier session that the agent ended itself may arrive only after the next session is Established (late_lost): the running session must not notice',
    'C18j': 'scripted adaptive scenarios: the peer drops TCP in OpenSent / OpenConfirm / Established (or the agent ends the session) and is then unreachable for 400 s, statistic compared after every timer and every failed attempt',
    'C19j': 'histories may run on an iBGP session (the REST API adds the default LOCAL_PREF; an unchanged re-announcement is no change)',
    'C01k': 'caught by C05 from the start; the C01 alphabet now has an OPEN whose My-AS field names the configured peer AS while its 4-octet-AS capability names another one (RFC 6793: the capability counts -> Bad Peer AS)',
    'C03k': 'caught by C01 and C02 from the start; C03 itself now varies how the TCP connection of the session came about (first attempt refused; ConnectRetry time 10 s / 30 s so that the retry is made while the first attempt is still unanswered)',
    'C04k': 'the agent\'s own configuration became a dimension (route-refresh kinds off, no capabilities at all, more families, rib + hold 9), as a Hypothesis dimension and as a grid over every known message type: what the agent advertises does not change which types and lengths are well framed',
    'C08k': 'new kind out-of-range: a valid UPDATE in which one attribute value does not fit its field in the session\'s mode (AS above 65535 in AGGREGATOR / AS_PATH on a 2-octet-AS session, 2^32, -1, IPv6 address in a 4-octet field, ...): refused, or well formed. Found F061 (IPv6 aggregator address), fixed bd098cf; patch rebased onto that fix (original kept as patch.orig.diff, as for C06k)',
    'C10k': 'caught by C04 from the start; C10 now also delivers the hostile message and everything behind it in ONE TCP segment and compares reports and state with one-message-per-segment delivery',
    'C11k': 'new shards big-field+error: every attribute type / link-state TLV / prefix-SID TLV / link-state NLRI descriptor (sub-)TLV holding one 3700-octet value, alone and with an attribute the decoder refuses before or after it',
    'C13k': 'the stop may follow a start request within the same reactor turn (REST start, no reactor turn, REST stop): nothing the start left queued may open a connection after the stop',
    'C14k': 'NOTIFICATION: every Data length 0..4075 (messages of 21..4096 octets), two fill patterns',
    'C15k': 'caught by C09 from the start; attribute permutations are now also decoded as on a 2-octet-AS session (AS_PATH / AGGREGATOR in 2-octet form next to AS4_PATH / AS4_AGGREGATOR)',
    'C18k': 'caught by C04 from the start; in C18 a well-formed UPDATE may now arrive in 2, 3, 4, 9 (walks) or 200 (grid) TCP segments',
    'C20k': 'rotation thresholds 0, 1 and 60 octets (every record rotates) and a clock coarser than the event rate (several readings per tick, so two rotations can compute the same file name)',
    'C02m': 'caught by C01 and C03 from the start; in C02 the cooperative peer of the hand-over may now be a slow one: it answers the agent\'s OPEN 2..200 s later (inside the 240 s of OpenSent), the bound grows by that latency',
    'C03m': 'caught by C04 and C10 from the start; C03 arrivals may now be several messages in one TCP segment (KK, KU, UK, KUK)',
    'C15m': 'caught by C06 and C17 from the start; C15 used to drop pool elements that do not decode on their own - now such an element must be refused next to a neighbour too (decode(a || e) defined while decode(e) raises = the meaning of e depends on its neighbour)',
    'C17m': 'one attribute may now hold communities of several kinds: Hypothesis lists of 2-6 kinds and every ordered pair of kinds x 3 x 3 fixed values (encapsulation 8 / 9 / 2 among them)',
    'C18m': 'new event: one REST request announcing 1200 prefixes (more than a 4096-octet UPDATE holds). On the unchanged tree this wrote a 6050-octet UPDATE - defect F062 (C08, oversize kind), fixed e69c0e1',
    'C19m': 'histories may run on a session without the 4-octet-AS capability, and a REST announcement may carry an AS above 65535 (ann-big-as): the agent may refuse it, and the sent counter must move exactly when the Adj-RIB-Out it reports changed (table read before and after - no model needed)',
    'C01n': 'caught by C04 and C10 from the start; the C01 alphabet now has a well-formed UPDATE of exactly 4096 octets',
    'C02n': 'not strengthened: caught by C12 (second connection while one is open) and C13 (stop leaves a connection open), which is where an adopted-in-Idle connection shows; C02 itself still passes because the session does come up within the bound',
    'C04n': 'new violation kind XX: a header with a corrupt marker AND a wrong length / type (judged in the order of the reference deframer: marker first)',
    'C09n': 'caught by C07 from the start; the IPv6 next hop of C09 is now any IPv6 address (values below 2^32 included) instead of global-looking ones only',
    'C10n': 'caught by C04 from the start; C10 now also cuts the hostile message behind its header and lets the segment that completes it end 1..18 octets into the next header',
    'C11n': 'new shards text-values: text-like values (runs of letters / host names followed by another character) of lengths 8..4000 through every decoder, measuring processor time as well because the line-event budget cannot see a backtracking regular expression inside C code (3 s per call counts as unbounded; typical < 0.05 s)',
    'C13n': 'quick-restart variant: the manual start that follows the stop must call connectTCP at that instant, also while the connectionLost of the stopped connection is still on its way',
    'C14n': 'not strengthened: a repeated capability is C15 ground (caught there: open-capabilities not compositional)',
    'C15n': 'not strengthened: caught by C14 (Optional Parameters Length padded to 255)',
    'C18n': 'twelve shapes of unencodable route-refresh requests (res 300 / -1 / text / null, float or oversized afi / safi, missing keys)',
    'C20n': 'histories may start on a directory that already holds a log in the format of an earlier release (Python-list lines): numbering continues after it',
    'C13p': 'before the stop a handler may have had the agent send a NOTIFICATION through its internal queue (sent on the next KEEPALIVE; this agent keeps the session): the stop in Established still sends its Cease',
    'C19p': 'flowspec rule pool gained a rule whose component types have one and two digits (1, 5, 10 - as text "10" sorts before "5"), also in the exhaustive alphabet (announce / withdraw through REST)',
    'C02q': 'new shard of scripted outage histories: the session or its handshake ends in one of eight ways and the peer is then unreachable (every attempt refused / unanswered) for 100, 238, 242 or 500 s - long enough for every timer armed before, the 4-minute OpenSent wait included, to run out - then the cooperative peer takes over',
    'C16q': 'requests of the v6 / vpn4 shapes may also withdraw IPv4 routes (withdraw + MP_REACH attribute, no IPv4 NLRI): both parts go out',
    'C18q': 'ROUTE-REFRESH messages (type 5 and 128) for families the agent did not advertise, as walk events and as scripted scenarios: received messages all the same',
    'C16c': 'send cases now run with [bgp] rib on or off and with 0-2 earlier announcements on the same session whose prefixes the checked request may withdraw or re-announce (a withdraw list mixing announced and never-announced prefixes is the trigger)',
    'C19c': 'new operation: one peer UPDATE that carries IPv4 withdrawn routes together with a flowspec / VPNv4 MP_REACH or MP_UNREACH attribute; both parts must be applied (patch rebased onto the current tree because a later fix touched the same lines; original kept as patch.orig.diff)',
    'C20c': 'the peer address as configured became a dimension (IPv4, lower-case IPv6, upper-case IPv6) and a handler callback that raises is now a violation (event not logged) instead of a harness error',
    'C11b': 'a corpus of ~30 well-formed UPDATE bodies (one per family / route type, reference-encoded) was added and every octet position is set to each of 60 boundary values (all 256 in the thorough tier), plus Hypothesis 2-4 position mutations; before, only 5 values per position of the unit-test vectors were tried, which never produced an over-long next-hop / prefix length with enough octets behind it',
    'C19b': 'attribute sets that are supersets of one another (set 0 + MED, + COMMUNITIES) were added, so a re-announcement that only drops an attribute occurs',
}


def main():
    rows = []
    for d in sorted(glob.glob(os.path.join(HERE, 'seeded', 'C*'))):
        pid = os.path.basename(d)
        try:
            meta = json.load(open(os.path.join(d, 'meta.json')))
        except Exception:
            meta = {}
        res = open(os.path.join(d, 'result.txt')).read().strip().split('\n') if os.path.exists(os.path.join(d, 'result.txt')) else []
        meta['property'] = pid[:3]
        if pid in REJECTED:
            meta['rejected_by_verifier'] = REJECTED[pid]
        if os.path.exists(os.path.join(d, 'patch.orig.diff')):
            meta['patch_rebased'] = ('patch.diff was rebased onto the current tree because a later repair of the repository touched the '
                                     'same lines; the sub-agent\'s original is kept as patch.orig.diff')
        meta['confirmed_by_verifier'] = {
            'ran': ['tools/try_seed.sh %s  (scratch copies of /repo under /tmp: demo on the clean copy; demo, unit tests and '
                    './check %s --tier quick with VERIF_REPO on the changed copy)' % (pid, pid[:3])],
            'results': res, 'caught_on_first_run': FIRST_TRY.get(pid), 'strengthening': STRENGTHEN.get(pid)}
        json.dump(meta, open(os.path.join(d, 'meta.json'), 'w'), indent=1)
        rows.append((pid, str(meta.get('summary', ''))[:260].replace('\n', ' '), str(meta.get('needs', ''))[:220].replace('\n', ' '),
                     FIRST_TRY.get(pid) if pid not in REJECTED else 'rejected', res[-1] if res else ''))
    with open(os.path.join(HERE, 'seeded', 'INDEX.md'), 'w') as f:
        f.write('# Seeded changes (written by fresh sub-agents that saw only the property text)\n\n'
                'Round 1: one change per property (C01..C20). Round 2 (ids ending in b): a second, different change for all twenty\n'
                'properties. Rounds 3 to 14 (ids ending in c / d, e, f, g, h, i, j, k, m, n, p and - for ten properties - q): further ones, the sub-agent being told what the earlier rounds had changed.\n'
                'Each directory holds patch.diff, the agent\'s demo.py, meta.json (incl. what the verifier ran) and\n'
                'result.txt; `tools/try_seed.sh <id>` re-runs the confirmation on scratch copies of /repo.\n\n'
                '| id | change | needs | caught on first run | final check result |\n|---|---|---|---|---|\n')
        for r in rows:
            f.write('| %s | %s | %s | %s | %s |\n' % (r[0], r[1].replace('|', '/'), r[2].replace('|', '/'),
                                                  ('rejected as equivalent, see meta.json' if r[3] == 'rejected' else 'yes' if r[3] else 'no - check strengthened, see meta.json'), r[4].replace('|', '/')))
    print(len(rows), 'entries')


if __name__ == '__main__':
    main()
