#!/bin/sh
# tools/sweep.sh <tier> <seed...>  - run every registered check on the unchanged tree; print one line per run.
HERE="$(cd "$(dirname "$0")/.." && pwd)"; cd "$HERE"
TIER="$1"; shift
for s in "$@"; do
  for p in C01 C02 C03 C04 C05 C06 C07 C08 C09 C10 C11 C12 C13 C14 C15 C16 C17 C18 C19 C20; do
    out="$(VERIF_SEED=$s ./check $p --tier $TIER --no-evidence 2>&1)"; rc=$?
    echo "seed=$s rc=$rc $(echo "$out" | tail -1)"
    [ $rc -ne 0 ] && echo "$out" | grep "^violation\|^VIOLATION\|HARNESS" | head -5
  done
done
exit 0
