#!/venv/bin/python
"""Regenerates MANIFEST.json from the table below (keeps it valid at all times)."""
import json
import os
import subprocess

HERE = os.path.dirname(os.path.dirname(os.path.abspath(__file__)))

# property -> (technique, level text, level note, design ref)
CLAIMED = {
    'C01': ('model-based testing: small-scope exhaustive BFS of event sequences with state de-duplication + Hypothesis '
            'random walks, reference RFC 4271 FSM model run in lock-step on a virtual reactor',
            'Every reachable (state,event) cell of the C01 alphabet is exercised on the real FSM/protocol/factory code over '
            'a deterministic virtual Twisted reactor; each step is compared with a reference model written from RFC 4271 '
            'section 8 (state, messages with code/subcode, close, new attempt) and a history monitor checks that '
            'Established only follows OPEN/OPEN/KEEPALIVE/KEEPALIVE on the current connection. Bounded depth.',
            'Trusted base: vlib/simnet (Twisted semantics), vlib/fsm_model.py (the RFC profile of DESIGN.md 4.3), refcodec.',
            '5/C01'),
    'C02': ('property-based testing (Hypothesis) of adversarial event prefixes followed by a scripted cooperative peer; '
            'bounded-time re-establishment oracle + byte-identical OPEN differential against a fresh boot',
            'Generated hostile histories x timer configurations; after the hand-over the session must reach Established '
            'within idle_hold + connect cycle on the virtual clock, stay up three hold times, and offer the same OPEN as a '
            'fresh boot.', 'Trusted base: simnet, cooperative peer script (vlib/session.py).', '5/C02'),
    'C03': ('property-based testing (Hypothesis) over hold-time configurations and peer arrival schedules incl. exact '
            'ties, oracle computed from the schedule alone on a virtual clock; plus a configuration grid',
            'Keepalive spacing <= H/3, no expiry while arrivals are younger than H, Hold Timer Expired exactly at '
            'last arrival + H, both orders of an exact tie, H=0, large hold time in OpenSent.',
            'Trusted base: simnet clock (timers fire exactly when due), tolerance 1e-6 s.', '5/C03'),
    'C04': ('property-based testing (Hypothesis) + exhaustive 1-/2-cut and header-field grids; differential vs a '
            'reference deframer and metamorphic equality across segmentations',
            'Generated streams x segmentations on the real BGP protocol object over a virtual reactor: differential '
            'against an independent RFC 4271 deframer, metamorphic equality of the whole reaction across cuts, '
            'NOTIFICATION(1,sub)+close on violations, deterministic work budget per chunk. Exploration: bounded '
            'stream length, full grids over the length and type octets.',
            'Trusted base: vlib/simnet (Twisted 20.3 transport semantics: no delivery after loseConnection), '
            'vlib/refcodec deframer, sys.monitoring line counter as work measure.', '5/C04'),
    'C06': ('property-based testing (Hypothesis): construct->parse round trip with an independently rendered expectation, '
            'plus an exhaustive prefix-length grid',
            'Round trip of generated UPDATE dicts (IPv4 prefixes of every length, every standard attribute at its '
            'boundaries, 2-/4-octet AS) through Update.construct/Update.parse; expected community text rendered by the '
            'harness from numeric values.', 'Trusted base: refcodec framing + community renderer.', '5/C06'),
    'C07': ('property-based testing (Hypothesis) per address family and direction, round trip through a full UPDATE, '
            'culprit-route isolation, exhaustive prefix-length x label grid',
            'Every MP_REACH/MP_UNREACH value of the families that are both encoded and decoded must decode back to '
            'itself (addresses compared by value).', 'Trusted base: semantic comparison of addresses via ipaddress.', '5/C07'),
    'C11': ('exhaustive short inputs + mutation fuzzing of harvested vectors + Hypothesis random/TLV-soup inputs, every '
            'call under a deterministic work budget (sys.monitoring line events)',
            'Every decoder entry point (UPDATE, attributes, NLRI families, all registered BGP-LS and Prefix-SID TLVs, OPEN, '
            'capabilities, NOTIFICATION, ROUTE-REFRESH, KEEPALIVE) returns or raises within A+B*len line events; '
            'Update.parse with in-range length fields returns the documented dict and never raises.',
            'Trusted base: line-event counter as the measure of work.', '5/C11'),
    'C12': ('model-free invariant checking over event sequences: BFS with state de-duplication + Hypothesis random walks '
            'over the unrestricted alphabet incl. all same-instant timer orders',
            'After every event at most one connector is connecting/connected, no connectTCP while another is open '
            '(snapshot at the call), no write to an untracked connection, nothing leaked at quiescence; connect-retry '
            'below/equal/above the TCP timeout.', 'Trusted base: simnet connector model.', '5/C12'),
    'C13': ('property-based testing (Hypothesis): generated prefix -> REST manual-stop -> generated continuation -> '
            'REST manual-start -> cooperative peer, with silence and restart oracles',
            'Cease iff Established, close, then no byte written and no connect attempt whatever the environment does '
            'for 2400 s; manual start connects at once, recovery is automatic again, start while Established is a no-op.',
            'Trusted base: simnet, Flask test client for the REST calls.', '5/C13'),
    'C14': ('property-based testing (Hypothesis) + exhaustive enumeration (all 65536 NOTIFICATION code/subcode pairs, every Data length, '
            'length-framed Data shapes, all capability-switch subsets); round trip and differential against refcodec',
            'OPEN/NOTIFICATION/KEEPALIVE/ROUTE-REFRESH: construct->parse round trip, byte equality with the independent '
            'encoder, and decoding of refcodec-encoded OPENs over capability subsets, orders and packagings.',
            'Trusted base: refcodec OPEN encoder/decoder.', '5/C14'),
    'C05': ('property-based testing (Hypothesis): configuration x history of earlier sessions x observed peer OPEN x UPDATE; '
            'differential of the OPEN against a fresh boot, reference acceptance rule, hold expiry instant, AS-width oracle',
            'The agent OPEN on every session is byte-identical to that of a fresh boot and consistent with the '
            'configuration; a peer OPEN is accepted iff version 4, AS (4-octet value when capability present) matches and hold '
            'not in {1,2}; session hold = min; AS_PATH/AGGREGATOR read 4-octet iff both sides advertised capability 65.',
            'Trusted base: simnet, refcodec OPEN codec.', '5/C05'),
    'C10': ('mutation-based / structure-aware fuzzing with Hypothesis through BGP.dataReceived in every session state; '
            'metamorphic control run, work budget, at-most-one-report and re-establishment oracles',
            'good* bad good* sequences, bad = mutated reference encodings in both AS widths, mutated unit-test vectors as '
            'body / attribute / MP NLRI, BGP-LS TLV soup, random bytes, mutated OPEN/NOTIFICATION/ROUTE-REFRESH/KEEPALIVE.',
            'Trusted base: simnet, refcodec, harvested vectors, line-event work budget.', '5/C10'),
    'C16': ('exhaustive matrix over URL map x methods x credential classes x session states x bodies + Hypothesis-generated '
            'send requests decoded from the simulated wire by refcodec',
            'Unauthenticated requests get 401 (405 for foreign methods) and leave a full state snapshot unchanged; sending '
            'endpoints outside Established report failure and change nothing; a send reported successful put exactly one '
            'frame on the current connection whose independent decoding equals the request (+ default LOCAL_PREF on iBGP).',
            'Trusted base: Flask test client (no real HTTP/thread pool), refcodec decoder.', '5/C16'),
    'C17': ('property-based testing (Hypothesis) per community kind: RFC octets -> decoder text -> REST json_to_bin / '
            'send/update -> octets -> text round trip, differential against refcodec encodings',
            'Every extended-community kind the decoder renders, communities incl. all well-known names and large communities: '
            'the decoded text is accepted by the REST interface, re-encodes to the RFC octets (documented don\'t-care bits '
            'masked) and decodes to the identical text.', 'Trusted base: refcodec encodings of each kind.', '5/C17'),
    'C18': ('model-based testing: Hypothesis random walks over the C01 alphabet + raw frames + REST sends, statistic '
            'endpoint compared after every step with an independent count of frames on the simulated transport',
            'send[type] equals frames written on the current connection; receive[type] lies between frames of valid length '
            'and all frames of that type delivered on it.', 'Trusted base: simnet transcript, refcodec framing.', '5/C18'),
    'C19': ('stateful property-based testing (Hypothesis histories + exhaustive short sequences) against a dictionary model',
            'Announce / withdraw / re-announce / mixed / flowspec / VPNv4 / operator sends / session drops; after every step '
            'Adj-RIB-In (object and REST), Adj-RIB-Out and the per-family received/sent version counters equal the model.',
            'Trusted base: dictionary model in vlib/props/c19.py, radix shim for longest match.', '5/C19'),
    'C20': ('stateful property-based testing with fault injection (Hypothesis histories, exhaustive short histories, every '
            'byte offset of a torn write in the thorough tier) + audit of all files',
            'Real DefaultHandler on a scratch directory with a virtual clock: every event appends one JSON object line with '
            'keys t/seq/type/msg, seq contiguous across rotations, restarts and crashes inside a write; restart never fails.',
            'Trusted base: torn-write model (a prefix of the last append survives); stdlib json standing in for simplejson.',
            '5/C20'),

    'C08': ('property-based testing (Hypothesis) over every construct path, checked by an independent structural walker '
            '(vlib/refwalk.py) plus a skeleton predicted from the input',
            'All messages the agent can construct (C06/C07/C14 input spaces, SR-TE policy + tunnel encapsulation, PMSI, IPv6 '
            'flowspec, EVPN type 5, and the send_* path of a simulated session) are walked: header length, every attribute / '
            'TLV / capability / NLRI length sums exactly, flag bits match the RFC category, prefixes occupy ceil(len/8) octets; '
            'construct exceptions are passes, None / malformed bytes are failures.',
            'Trusted base: vlib/refwalk.py + refcodec (share no code with yabgp).', '5/C08'),
    'C09': ('differential testing against an independent RFC encoder (refcodec) with legal-variant switches, Hypothesis-generated; '
            'negative half with single-field corruptions',
            'refcodec-encoded UPDATEs with extended length on short attributes, trailing bits in IPv4 prefixes, any attribute '
            'order, several AS_PATH segments, AS4_PATH/AS4_AGGREGATOR, 2-/4-octet AS and add-path must decode to the encoded '
            'values without error; listed malformations must set sub_error.',
            'Trusted base: refcodec encoder.', '5/C09'),
    'C15': ('metamorphic testing: exhaustive ordered pairs over per-kind element pools + Hypothesis k-tuples (decode(a||b) = '
            'decode(a)+decode(b)), all attribute permutations up to 5 attributes, unknown-element insertion',
            'Compositionality of every list decoder (prefix lists, labeled/VPN/EVPN/flowspec routes, communities, cluster '
            'list, AS_PATH segments, OPEN capabilities, BGP-LS NLRIs/descriptors/attribute TLVs, Prefix-SID TLVs) and order '
            'independence of attribute decoding.',
            'Trusted base: refcodec element encoders; BGP-LS / Prefix-SID TLV bodies are those the decoder accepts alone.', '5/C15'),

}

NOT_YET = {}


def main():
    props = [json.loads(l) for l in open(os.path.join(HERE, 'properties.jsonl'))]
    checks = []
    na = []
    for p in props:
        pid = p['id']
        if pid in CLAIMED:
            tech, text, note, ref = CLAIMED[pid]
            checks.append({
                'property_id': pid,
                'quick_cmd': './check %s --tier quick' % pid,
                'thorough_cmd': './check %s --tier thorough' % pid,
                'evidence_file': 'evidence/%s.json' % pid,
                'replay_cmd_template': './check %s --replay {path}' % pid,
                'engine': 'vlib',
                'level_claimed': {'category': 'exploration', 'text': text, 'design_ref': 'DESIGN.md section ' + ref},
                'level_note': note,
                'technique': tech,
            })
        else:
            na.append({'property_id': pid,
                       'reason': NOT_YET.get(pid, 'check not built yet in this round (designed in DESIGN.md section 5; '
                                                  'the technique applies, nothing is claimed until the check exists)')})
    hooks = []
    man = {
        'version': 1,
        'setup_cmd': './setup.sh',
        'hooks': {
            'guard': 'YABGP_VERIF',
            'enable': 'no source hooks exist: checks import /repo (or $VERIF_REPO) directly with harness-side shims '
                      'for twisted/radix/simplejson on sys.path; YABGP_VERIF=1 is exported by the harness but read nowhere',
            'baseline_off_cmd': 'cd /repo && /venv/bin/python -m pytest -q -p no:cacheprovider --timeout=900 '
                                '--continue-on-collection-errors',
            'source_commits': hooks,
            'add_only': True,
        },
        'engines': [
            {'name': 'vlib', 'path': 'vlib/', 'serves_properties': sorted(CLAIMED),
             'kind_free_text': 'Hypothesis strategies / rule-based machines, small-scope exhaustive enumeration and '
                               'atheris fuzzing over the real yabgp code; session layer runs on a deterministic '
                               'virtual Twisted reactor (vlib/simnet); oracles from an independent RFC codec (vlib/refcodec)'},
        ],
        'checks': checks,
        'not_applicable': na,
        'notes': 'Every check: exit 0 held / 1 VIOLATION line / 2 harness error. VERIF_SEED selects the Hypothesis seeds; '
                 'VERIF_REPO (default /repo) selects the tree under test. Known findings ledger: KNOWN_FINDINGS.txt.',
    }
    with open(os.path.join(HERE, 'MANIFEST.json'), 'w') as fh:
        json.dump(man, fh, indent=1)
        fh.write('\n')
    # validate
    code = ("import json,jsonschema;jsonschema.validate(json.load(open('%s/MANIFEST.json')),"
            "json.load(open('/root/.vp/MANIFEST.schema.json')));print('MANIFEST valid: %d checks, %d not_applicable')"
            % (HERE, len(checks), len(na)))
    subprocess.call(['python3-vt', '-c', code])


if __name__ == '__main__':
    main()
