#!/venv/bin/python
"""Regenerates MANIFEST.json from the table below (keeps it valid at all times)."""
import json
import os
import subprocess

HERE = os.path.dirname(os.path.dirname(os.path.abspath(__file__)))

# property -> (technique, level text, level note, design ref)
CLAIMED = {
    'C04': ('property-based testing (Hypothesis) + exhaustive 1-/2-cut and header-field grids; differential vs a '
            'reference deframer and metamorphic equality across segmentations',
            'Generated streams x segmentations on the real BGP protocol object over a virtual reactor: differential '
            'against an independent RFC 4271 deframer, metamorphic equality of the whole reaction across cuts, '
            'NOTIFICATION(1,sub)+close on violations, deterministic work budget per chunk. Exploration: bounded '
            'stream length, full grids over the length and type octets.',
            'Trusted base: vlib/simnet (Twisted 20.3 transport semantics: no delivery after loseConnection), '
            'vlib/refcodec deframer, sys.monitoring line counter as work measure.', '5/C04'),
}

NOT_YET = {}


def main():
    props = [json.loads(l) for l in open(os.path.join(HERE, 'properties.jsonl'))]
    checks = []
    na = []
    for p in props:
        pid = p['id']
        if pid in CLAIMED:
            tech, text, note, ref = CLAIMED[pid]
            checks.append({
                'property_id': pid,
                'quick_cmd': './check %s --tier quick' % pid,
                'thorough_cmd': './check %s --tier thorough' % pid,
                'evidence_file': 'evidence/%s.json' % pid,
                'replay_cmd_template': './check %s --replay {path}' % pid,
                'engine': 'vlib',
                'level_claimed': {'category': 'exploration', 'text': text, 'design_ref': 'DESIGN.md section ' + ref},
                'level_note': note,
                'technique': tech,
            })
        else:
            na.append({'property_id': pid,
                       'reason': NOT_YET.get(pid, 'check not built yet in this round (designed in DESIGN.md section 5; '
                                                  'the technique applies, nothing is claimed until the check exists)')})
    hooks = []
    man = {
        'version': 1,
        'setup_cmd': './setup.sh',
        'hooks': {
            'guard': 'YABGP_VERIF',
            'enable': 'no source hooks exist: checks import /repo (or $VERIF_REPO) directly with harness-side shims '
                      'for twisted/radix/simplejson on sys.path; YABGP_VERIF=1 is exported by the harness but read nowhere',
            'baseline_off_cmd': 'cd /repo && /venv/bin/python -m pytest -q -p no:cacheprovider --timeout=900 '
                                '--continue-on-collection-errors',
            'source_commits': hooks,
            'add_only': True,
        },
        'engines': [
            {'name': 'vlib', 'path': 'vlib/', 'serves_properties': sorted(CLAIMED),
             'kind_free_text': 'Hypothesis strategies / rule-based machines, small-scope exhaustive enumeration and '
                               'atheris fuzzing over the real yabgp code; session layer runs on a deterministic '
                               'virtual Twisted reactor (vlib/simnet); oracles from an independent RFC codec (vlib/refcodec)'},
        ],
        'checks': checks,
        'not_applicable': na,
        'notes': 'Every check: exit 0 held / 1 VIOLATION line / 2 harness error. VERIF_SEED selects the Hypothesis seeds; '
                 'VERIF_REPO (default /repo) selects the tree under test. Known findings ledger: KNOWN_FINDINGS.txt.',
    }
    with open(os.path.join(HERE, 'MANIFEST.json'), 'w') as fh:
        json.dump(man, fh, indent=1)
        fh.write('\n')
    # validate
    code = ("import json,jsonschema;jsonschema.validate(json.load(open('%s/MANIFEST.json')),"
            "json.load(open('/root/.vp/MANIFEST.schema.json')));print('MANIFEST valid: %d checks, %d not_applicable')"
            % (HERE, len(checks), len(na)))
    subprocess.call(['python3-vt', '-c', code])


if __name__ == '__main__':
    main()
