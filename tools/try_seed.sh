#!/bin/sh
# tools/try_seed.sh <Cxx> [prop-to-check ...]  - confirm a sub-agent's seeded change and run the checks against it.
# Input: /tmp/seed/<Cxx>/_out/{patch.diff,demo.py,meta.json}.  Output: /verif/seeded/<Cxx>/ (+ result.txt).
ID="$1"; shift
PROPS="${*:-$(echo "$ID" | cut -c1-3)}"
HERE="$(cd "$(dirname "$0")/.." && pwd)"
SRC="/tmp/seed/$ID/_out"
DST="$HERE/seeded/$ID"
mkdir -p "$DST"
if [ -f "$SRC/patch.diff" ]; then cp "$SRC/patch.diff" "$SRC/demo.py" "$SRC/meta.json" "$DST/" 2>/dev/null; fi
[ -f "$DST/patch.diff" ] || { echo "no patch for $ID"; exit 2; }
SCR="$(mktemp -d /tmp/verif-seed.XXXXXX)"; trap 'rm -rf "$SCR"' EXIT
rsync -a --exclude .git --exclude __pycache__ --exclude _out /repo/ "$SCR/clean/"
rsync -a --exclude .git --exclude __pycache__ --exclude _out /repo/ "$SCR/mut/"
(cd "$SCR/mut" && patch -p1 -s < "$DST/patch.diff") || { echo "patch does not apply"; exit 2; }
R="$DST/result.txt"; : > "$R"
run_demo() { mkdir -p "$1/_out"; sed "s#/tmp/seed/$ID#$1#g" "$DST/demo.py" > "$1/_out/demo.py"; (cd "$1" && timeout 300 /venv/bin/python "$1/_out/demo.py" >/dev/null 2>&1); echo $?; }
echo "demo on clean tree: exit $(run_demo "$SCR/clean")" | tee -a "$R"
echo "demo on changed tree: exit $(run_demo "$SCR/mut")" | tee -a "$R"
echo "unit tests on changed tree: $(cd "$SCR/mut" && /venv/bin/python -m pytest -q -p no:cacheprovider yabgp 2>&1 | tail -1)" | tee -a "$R"
for P in $PROPS; do
  out="$(cd "$HERE" && VERIF_REPO="$SCR/mut" ./check "$P" --tier quick --no-evidence 2>&1)"; rc=$?
  echo "check $P quick on changed tree: exit $rc; $(echo "$out" | grep -c '^VIOLATION') VIOLATION lines; $(echo "$out" | grep '^violation: sig=' | head -3 | tr '\n' ' ')" | tee -a "$R"
  rm -f "$HERE"/replays/"$P"-*.json
done
