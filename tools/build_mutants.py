#!/venv/bin/python
"""Regenerates mutants/*.patch (small realistic breakages, one per file) against the current /repo tree."""
import os
import sys
sys.path.insert(0, os.path.dirname(os.path.abspath(__file__)))
from mkmutant import mk  # noqa: E402

F = 'yabgp/core/fsm.py'
P = 'yabgp/core/protocol.py'
FA = 'yabgp/core/factory.py'
V1 = 'yabgp/api/v1.py'
U = 'yabgp/message/update.py'
M = {
    # ---- C01
    'C01-established-from-opensent': [(F, """        elif self.state == bgp_cons.ST_OPENSENT:
            # State OpenSent, event 26: FSM error
            self.protocol.send_notification(bgp_cons.ERR_FSM, 0)
            self._error_close()""", """        elif self.state == bgp_cons.ST_OPENSENT:
            self.state = bgp_cons.ST_ESTABLISHED""")],
    'C01-wrong-as-subcode': [(P, "raise excep.OpenMessageError(sub_error=bgp_cons.ERR_MSG_OPEN_BAD_PEER_AS)",
                              "raise excep.OpenMessageError(sub_error=bgp_cons.ERR_MSG_OPEN_UNSUP_VERSION)")],
    'C01-update-in-openconfirm-accepted': [(F, """        elif self.state in (bgp_cons.ST_OPENSENT, bgp_cons.ST_OPENCONFIRM):
            # States OpenSent, OpenConfirm, event 27""", """        elif self.state in (bgp_cons.ST_OPENSENT, ):
            # States OpenSent, OpenConfirm, event 27""")],
    # ---- C02
    'C02-no-idle-hold-after-error': [(F, """        self.idle_hold_timer.reset(self.idle_hold_time)

        # Release BGP resources (routes, etc)""", """        # Release BGP resources (routes, etc)""")],
    'C02-hold-time-sticks': [(F, """            self.hold_time = CONF.time.hold_time
            self.keep_alive_time = CONF.time.keep_alive_time
""", "")],
    # ---- C03
    'C03-update-does-not-restart-hold': [(F, """            if self.hold_time != 0:
                self.hold_timer.reset(self.hold_time)

        elif self.state in (bgp_cons.ST_ACTIVE, bgp_cons.ST_CONNECT):
            # States Active, Connect, event 27""", """            pass

        elif self.state in (bgp_cons.ST_ACTIVE, bgp_cons.ST_CONNECT):
            # States Active, Connect, event 27""")],
    'C03-keepalive-period-half': [(P, "self.fsm.keep_alive_time = self.fsm.hold_time / 3", "self.fsm.keep_alive_time = self.fsm.hold_time / 2")],
    # ---- C04
    'C04-consume-one-too-many': [(P, "        self._receive_buffer = self._receive_buffer[length:]\n        return True",
                                  "        self._receive_buffer = self._receive_buffer[length + 1:]\n        return True")],
    'C04-wait-for-one-more-octet': [(P, "        if len(buf) < length:\n            return False", "        if len(buf) <= length:\n            return False")],
    'C04-marker-15': [(P, "if buf[:16] != 16 * b'\\xff':", "if buf[:15] != 15 * b'\\xff':")],
    # ---- C05
    'C05-open-offers-negotiated-hold': [(F, """            self.hold_time = CONF.time.hold_time
            self.keep_alive_time = CONF.time.keep_alive_time
""", """            self.keep_alive_time = CONF.time.keep_alive_time
""")],
    'C05-hold-max': [(P, "self.fsm.hold_time = min(self.fsm.hold_time, hold_time)", "self.fsm.hold_time = max(self.fsm.hold_time, hold_time)")],
    # ---- C06
    'C06-mask-boundary': [(U, "            elif 0 < masklen <= 8:\n                ip_hex = ip_hex[0:1]\n            elif masklen == 0:",
                           "            elif 0 < masklen < 8:\n                ip_hex = ip_hex[0:1]\n            elif masklen == 0:")],
    'C06-med-signed': [('yabgp/message/attribute/med.py', "+ struct.pack('!B', 4) + struct.pack('!I', value)", "+ struct.pack('!B', 4) + struct.pack('!i', value)")],
    'C09-no-remainder-mask': [(U, "                prefix_data[-1] &= 255 << (8 - remainder)\n            prefix_data = prefix_data + list(str(0)) * 4\n            prefix = \"%s.%s.%s.%s\" % (tuple(prefix_data[0:4])) + '/' + str(prefix_len)\n            if not addpath:",
                               "                pass\n            prefix_data = prefix_data + list(str(0)) * 4\n            prefix = \"%s.%s.%s.%s\" % (tuple(prefix_data[0:4])) + '/' + str(prefix_len)\n            if not addpath:")],
    # ---- C07
    'C07-rd-type2-packing': [('yabgp/message/attribute/nlri/mpls_vpn.py', "return struct.pack('!HIH', bgp_cons.BGP_ROUTE_DISTINGUISHER_TYPE_2, data[0], data[1])",
                              "return struct.pack('!HHI', bgp_cons.BGP_ROUTE_DISTINGUISHER_TYPE_2, data[0] & 0xffff, data[1])")],
    'C07-evpn-ip-length-octets': [('yabgp/message/attribute/nlri/evpn.py', """        if value.get('ip'):
            ip_hex = netaddr.IPAddress(value['ip']).packed
            value_hex += struct.pack('!B', len(ip_hex) * 8) + ip_hex
        else:
            value_hex += b'\\x00'
        if value.get('label'):""", """        if value.get('ip'):
            ip_hex = netaddr.IPAddress(value['ip']).packed
            value_hex += struct.pack('!B', len(ip_hex)) + ip_hex
        else:
            value_hex += b'\\x00'
        if value.get('label'):""")],
    # ---- C10
    'C10-no-catch-all': [(P, """        except Exception as e:
            LOG.error(e)
            error_str = traceback.format_exc()
            LOG.debug(error_str)
        self._receive_buffer = self._receive_buffer[length:]""", """        except excep.UpdateMessageError as e:
            LOG.error(e)
        self._receive_buffer = self._receive_buffer[length:]""")],
    'C10-update-error-tears-down': [(P, """            self.msg_recv_stat['Updates'] += 1
            self.fsm.update_received()
            return
""", """            self.msg_recv_stat['Updates'] += 1
            self.fsm.header_error(bgp_cons.ERR_MSG_HDR_BAD_MSG_LEN)
            return
""")],
    # ---- C11
    'C11-framer-does-not-advance': [('yabgp/message/attribute/linkstate/linkstate.py', "            data = data[4 + length:]\n\n        return cls(value=tlvs)",
                                     "            data = data[length:]\n\n        return cls(value=tlvs)")],
    # ---- C12
    'C12-no-abort-before-connect': [(FA, """            self._abort_pending_connect()
            connector = self.connector = reactor.connectTCP(""", """            connector = self.connector = reactor.connectTCP(""")],
    # ---- C13
    'C13-stop-keeps-automatic-start': [(F, "        self.allow_automatic_start = False\n        self.state = bgp_cons.ST_IDLE\n        return True",
                                        "        self.state = bgp_cons.ST_IDLE\n        return True")],
    'C13-start-does-not-rearm-automatic-start': [(F, "        LOG.info('Manual start.')\n        self.allow_automatic_start = True\n",
                                                  "        LOG.info('Manual start.')\n")],
    # ---- C14
    'C14-open-fields-swapped': [('yabgp/message/open.py', "        open_header = struct.pack('!BHHIB', self.version, self.asn, self.hold_time,",
                                 "        open_header = struct.pack('!BHHIB', self.version, self.hold_time, self.asn,")],
    'C14-capability-skip-off-by-one': [('yabgp/message/open.py', "capabilities = capabilities[2 + capability.capa_length:]", "capabilities = capabilities[1 + capability.capa_length:]")],
    # ---- C16
    'C16-route-without-auth': [(V1, """@blueprint.route('/peer/<peer_ip>/send/route-refresh', methods=['POST'])
@auth.login_required
""", """@blueprint.route('/peer/<peer_ip>/send/route-refresh', methods=['POST'])
""")],
    'C16-bin-update-not-gated': [(V1, """@api_utils.log_request
@api_utils.makesure_peer_establish
def send_bin_update(peer_ip):""", """@api_utils.log_request
def send_bin_update(peer_ip):""")],
    'C16-ibgp-localpref-inverted': [(V1, """        if 5 not in attr and res['peer']['remote_as'] == res['peer']['local_as']:
            # default local preference
            attr[5] = 100
        if 16 in attr:
            # extended community recombine
            ext_community = []
            for ext_com in attr[16]:
                key, value = ext_com.split(':', 1)
                if key.strip().lower() == 'route-target':
                    values = value.strip().split(',')
                    for vau in values:
                        if '.' in vau.strip().split(':')[0]:
                            ext_community.append([258, vau.strip()])
                        else:
                            nums = vau.strip().split(':', 1)
                            if int(nums[0].strip()) <= 65535:""", """        if 5 not in attr and res['peer']['remote_as'] != res['peer']['local_as']:
            # default local preference
            attr[5] = 100
        if 16 in attr:
            # extended community recombine
            ext_community = []
            for ext_com in attr[16]:
                key, value = ext_com.split(':', 1)
                if key.strip().lower() == 'route-target':
                    values = value.strip().split(',')
                    for vau in values:
                        if '.' in vau.strip().split(':')[0]:
                            ext_community.append([258, vau.strip()])
                        else:
                            nums = vau.strip().split(':', 1)
                            if int(nums[0].strip()) <= 65535:""")],
    # ---- C18
    'C18-keepalive-counter-skipped': [(P, """        self.msg_sent_stat['Keepalives'] += 1
        LOG.info("[%s]Send a BGP KeepAlive message to the peer.", self.factory.peer_addr)""",
                                       """        if self.msg_sent_stat['Keepalives'] == 0:
            self.msg_sent_stat['Keepalives'] += 1
        LOG.info("[%s]Send a BGP KeepAlive message to the peer.", self.factory.peer_addr)""")],
    'C18-routerefresh-counted-as-update': [(P, "        self.msg_recv_stat['RouteRefresh'] += 1\n        LOG.info(\n            '[%s]Route Refresh message received",
                                            "        self.msg_recv_stat['Updates'] += 1\n        LOG.info(\n            '[%s]Route Refresh message received")],
    # ---- C08
    'C08-segment-list-length-off-by-one': [('yabgp/message/attribute/tunnelencaps.py', "struct.pack('!H', len(weight_hex) + len(seg_hex) + 1) +\\\n                        b'\\x00' + weight_hex + seg_hex",
                                            "struct.pack('!H', len(weight_hex) + len(seg_hex)) +\\\n                        b'\\x00' + weight_hex + seg_hex")],
    'C08-mp-unreach-wrong-flag': [('yabgp/message/attribute/mpunreachnlri.py', "    FLAG = AttributeFlag.OPTIONAL + AttributeFlag.EXTENDED_LENGTH", "    FLAG = AttributeFlag.OPTIONAL + AttributeFlag.TRANSITIVE + AttributeFlag.EXTENDED_LENGTH")],
    # ---- C09
    'C09-ignore-extended-length': [(U, "                if flags & AttributeFlag.EXTENDED_LENGTH:\n                    attr_len = struct.unpack('!H', postfix[2:4])[0]",
                                    "                if flags & AttributeFlag.EXTENDED_LENGTH and postfix[2:3] != b'\\x00':\n                    attr_len = struct.unpack('!H', postfix[2:4])[0]")],
    'C09-origin-3-accepted': [('yabgp/message/attribute/origin.py', "        if orgin not in [cls.IGP, cls.EGP, cls.INCOMPLETE]:", "        if orgin > 3:")],
    # ---- C15
    'C15-path-id-only-on-first-route': [('yabgp/message/attribute/nlri/ipv6_unicast.py', "            if addpath:\n                path_id = struct.unpack(\"!I\", nlri_data[:4])[0]\n                nlri_data = nlri_data[4:]",
                                         "            if addpath and (not nlri_list or len(nlri_data) > 21):\n                path_id = struct.unpack(\"!I\", nlri_data[:4])[0]\n                nlri_data = nlri_data[4:]")],
    'C15-attributes-keyed-by-flags': [(U, "                attributes[type_code] = decode_value\n", "                attributes[type_code if not (flags & AttributeFlag.EXTENDED_LENGTH and type_code == 4) else 5] = decode_value\n")],
    # ---- C17
    'C17-route-origin-ipv4-as-target': [(V1, "                            ext_community.append([259, vau.strip()])\n                        else:\n                            if res['peer']['capability']['remote']:\n                                four_bytes_as = res['peer']['capability']['remote']['four_bytes_as']\n                            else:\n                                return flask.jsonify({\n                                    'status': False,\n                                    'code': 'please check peer state'\n                                })\n                            nums = vau.strip().split(':', 1)\n                            if int(nums[0].strip()) > 65535 and four_bytes_as:\n                                ext_community.append([515, vau.strip()])\n                            elif not four_bytes_as and int(nums[0].strip()) > 65535:\n                                return flask.jsonify({\n                                    'status': False,\n                                    'code': 'peer not support as num of greater than 65535'\n                                })\n                            else:\n                                ext_community.append([3, vau.strip()])\n                elif key.strip().lower() == 'redirect-vrf':",
                                         "                            ext_community.append([258, vau.strip()])\n                        else:\n                            if res['peer']['capability']['remote']:\n                                four_bytes_as = res['peer']['capability']['remote']['four_bytes_as']\n                            else:\n                                return flask.jsonify({\n                                    'status': False,\n                                    'code': 'please check peer state'\n                                })\n                            nums = vau.strip().split(':', 1)\n                            if int(nums[0].strip()) > 65535 and four_bytes_as:\n                                ext_community.append([515, vau.strip()])\n                            elif not four_bytes_as and int(nums[0].strip()) > 65535:\n                                return flask.jsonify({\n                                    'status': False,\n                                    'code': 'peer not support as num of greater than 65535'\n                                })\n                            else:\n                                ext_community.append([3, vau.strip()])\n                elif key.strip().lower() == 'redirect-vrf':")],
    'C17-large-community-signed-again': [('yabgp/message/attribute/largecommunity.py', "struct.unpack('!%dI' % length, value)", "struct.unpack('!%di' % length, value)")],
    # ---- C19
    'C19-rib-survives-connection-loss': [(P, "        LOG.debug('Called connectionLost')\n        self.init_rib()\n", "        LOG.debug('Called connectionLost')\n")],
    'C19-version-bumps-on-identical-reannounce': [(P, "                    if msg['attr'] == self.adj_rib_in['ipv4'][prefix]:\n                        pass\n                    else:\n                        self.receive_version['ipv4'] += 1",
                                                   "                    self.receive_version['ipv4'] += 1")],
    # ---- C20
    'C20-sequence-incremented-twice-on-error-path': [('yabgp/handler/default_handler.py', "            msg_file.write('\\n')\n            self.msg_sequence[peer.lower()] += 1", "            msg_file.write('\\n')\n            self.msg_sequence[peer.lower()] += 1 if msg_type != 6 else 2")],
    'C20-files-sorted-reversed': [('yabgp/handler/default_handler.py', "        file_list.sort()\n        msg_file_name = file_list[-1]", "        file_list.sort(reverse=True)\n        msg_file_name = file_list[-1]")],
}

if __name__ == '__main__':
    only = sys.argv[1] if len(sys.argv) > 1 else ''
    for name, edits in sorted(M.items()):
        if only in name:
            mk(name, edits)
            print('built', name)
