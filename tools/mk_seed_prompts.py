#!/venv/bin/python
"""tools/mk_seed_prompts.py <suffix> - write /tmp/seed/<Cxx><suffix>.prompt.txt for a new round of seeded changes and create the
scratch worktrees /tmp/seed/<Cxx><suffix> (detached at /repo HEAD).  The prompt contains the property text file name, the
session hints and one-line summaries of up to 10 earlier changes for that property (so that the new one is of another kind) -
nothing else from /verif."""
import glob
import json
import os
import subprocess
import sys

HERE = os.path.dirname(os.path.dirname(os.path.abspath(__file__)))
suffix = sys.argv[1]
tmpl = open(os.path.join(HERE, 'tools', 'seed_agent_template.txt')).read()
os.makedirs('/tmp/seed', exist_ok=True)
open('/tmp/seed/SESSION_HINTS.txt', 'w').write(open(os.path.join(HERE, 'tools', 'seed_agent_session_hints.txt')).read())
for line in open(os.path.join(HERE, 'properties.jsonl')):
    p = json.loads(line)
    pid = p['id']
    def text(v):
        if isinstance(v, str):
            return v
        if isinstance(v, list):
            return ', '.join(text(x) for x in v)
        if isinstance(v, dict):
            return '; '.join('%s: %s' % (k, text(x)) for k, x in v.items())
        return str(v)
    if not os.path.exists('/tmp/seed/%s.prop.txt' % pid):      # the text of the property, nothing else
        open('/tmp/seed/%s.prop.txt' % pid, 'w').write(
            'Property %s: %s\n\nStatement: %s\n\nQuantified over: %s\n\nCode it is anchored in: %s\n'
            % (pid, p.get('title', ''), p['statement'], text(p.get('quantifier', '')), text(p.get('anchors', ''))))
    earlier = []
    for d in sorted(glob.glob(os.path.join(HERE, 'seeded', pid + '*'))):
        try:
            m = json.load(open(os.path.join(d, 'meta.json')))
        except Exception:
            continue
        earlier.append(' '.join(str(m.get('summary', '')).split())[:200])
    earlier = earlier[-10:]
    focus = ('Several earlier people already produced the following changes for this property. Yours must be of a DIFFERENT kind: a '
             'different code region or mechanism AND a different kind of triggering situation. First list for yourself every function '
             'and branch of yabgp that takes part in what the property describes, and every clause of the property statement; cross off '
             'what the earlier changes touch; then choose from what is left - prefer a clause or a code path that nobody has touched '
             'yet, and a change that a careful reviewer would wave through. Also consider: configuration options nobody has varied yet, '
             'other REST endpoints and request shapes, values at the edge of a field\'s range, first/last/repeated elements of a list, '
             'very long inputs, state on long-lived objects / class attributes / module globals, the order of two events at the same '
             'instant, how TCP cuts or joins messages, and interactions between two features.\n'
             + '\n'.join(' - earlier change %d: %s' % (i + 1, e) for i, e in enumerate(earlier)))
    ident = pid + suffix
    open('/tmp/seed/%s.prompt.txt' % ident, 'w').write(tmpl.replace('@ID@', ident).replace('@PROP@', pid).replace('@FOCUS@', focus))
    wt = '/tmp/seed/' + ident
    if not os.path.isdir(wt):
        subprocess.check_call(['git', '-C', '/repo', 'worktree', 'add', '--detach', '-q', wt, 'HEAD'])
    os.makedirs(wt + '/_out', exist_ok=True)
print('prompts and worktrees for round %r written' % suffix)
