#!/bin/sh
# tools/verify_ledger.sh - for every `fixed:` entry of KNOWN_FINDINGS.txt: its reproducer must FAIL on the tree just
# before the fix commit and PASS on the current tree.  Scratch trees live under /tmp and are removed.
HERE="$(cd "$(dirname "$0")/.." && pwd)"
SCR="$(mktemp -d /tmp/verif-ledger.XXXXXX)"; trap 'rm -rf "$SCR"' EXIT
bad=0
grep '^fixed:' "$HERE/KNOWN_FINDINGS.txt" | while read -r line; do
  prop=$(echo "$line" | sed 's/.*property=\([A-Z0-9]*\).*/\1/')
  commit=$(echo "$line" | awk '{print $3}')
  rep=$(echo "$line" | sed 's/.*replay=\([^ ]*\).*/\1/')
  rm -rf "$SCR/t"; mkdir -p "$SCR/t"
  git -C /repo archive "${commit}^" | tar -x -C "$SCR/t" || { echo "$rep: cannot archive ${commit}^"; continue; }
  before=$(cd "$HERE" && VERIF_REPO="$SCR/t" ./check "$prop" --replay "$rep" 2>&1 | tail -1)
  after=$(cd "$HERE" && ./check "$prop" --replay "$rep" 2>&1 | tail -1)
  case "$before" in VIOLATION*) b=fails;; *) b="DOES-NOT-FAIL($before)";; esac
  case "$after" in replay\ passes*) a=passes;; *) a="DOES-NOT-PASS($after)";; esac
  echo "$prop $rep $commit : before-fix $b, now $a"
done
