#!/bin/sh
# MANIFEST.setup_cmd: offline, from files on disk only.
HERE="$(cd "$(dirname "$0")" && pwd)"
cd "$HERE" || exit 2
# hypothesis is normally present in /venv already; (re)install from the offline wheelhouse if not
/venv/bin/python -c "import hypothesis" 2>/dev/null || \
  /venv/bin/pip install -q --no-index --find-links /opt/veriftools/wheels hypothesis || exit 2
# atheris (coverage-guided fuzzing, thorough tier only) goes beside the checks, not into /venv
if [ ! -d "$HERE/.deps/atheris" ]; then
  /venv/bin/pip install -q --no-index --find-links /opt/veriftools/wheels --target "$HERE/.deps" atheris \
    || echo "setup: atheris not installed; thorough-tier fuzz campaigns will be skipped" >&2
fi
# smoke: the shims import and the real session layer comes up on the virtual reactor
PYTHONPATH="$HERE" PYTHONDONTWRITEBYTECODE=1 /venv/bin/python - <<'PY' || exit 2
from vlib import session
sim, c = session.new_established()
assert sim.state == 'ESTABLISHED', sim.state
print('setup: shims ok, handshake reaches', sim.state)
PY
