"""Structural walker (DESIGN.md 4.4): parses any BGP message the agent can construct into a skeleton
and raises WalkError on any length field that does not sum exactly to its container, on attribute
flags that contradict the attribute's RFC category and on prefixes that do not occupy ceil(len/8)
octets.  It never interprets values and shares no code with yabgp.
"""
import struct

from vlib.refcodec import (ATTR_CATEGORY, F_EXT, F_OPT, F_PARTIAL, F_TRANS, MARKER, WalkError, decode_open,
                           split_attrs, split_prefixes, split_update)


def need(cond, msg):
    if not cond:
        raise WalkError(msg)


def walk_message(raw, asn4=True):
    """-> skeleton dict"""
    need(isinstance(raw, (bytes, bytearray)), 'not bytes: %r' % type(raw).__name__)
    need(len(raw) >= 19, 'shorter than a header')
    need(raw[:16] == MARKER, 'marker')
    length, mtype = struct.unpack('!HB', raw[16:19])
    need(length == len(raw), 'header length %d, actual size %d' % (length, len(raw)))
    need(length <= 4096, 'message of %d octets' % length)
    body = raw[19:]
    if mtype == 1:
        d = decode_open(body)
        need(len(body) >= 10, 'OPEN too short')
        return {'type': 'OPEN', 'caps': [c[0] for c in d['caps']], 'open': d}
    if mtype == 2:
        return dict(walk_update(body, asn4), type='UPDATE')
    if mtype == 3:
        need(len(body) >= 2, 'NOTIFICATION too short')
        return {'type': 'NOTIFICATION', 'code': body[0], 'sub': body[1], 'data': len(body) - 2}
    if mtype == 4:
        need(len(body) == 0, 'KEEPALIVE with body')
        return {'type': 'KEEPALIVE'}
    if mtype in (5, 128):
        need(len(body) == 4, 'ROUTE-REFRESH body of %d octets' % len(body))
        return {'type': 'ROUTE-REFRESH'}
    raise WalkError('message type %d' % mtype)


def walk_update(body, asn4=True):
    wd, attrs, nlri = split_update(body)
    sk = {'withdraw': [(pl, len(o)) for _, pl, o in split_prefixes(wd, 32)],
          'nlri': [(pl, len(o)) for _, pl, o in split_prefixes(nlri, 32)], 'attrs': {}, 'order': []}
    seen = set()
    for flags, tc, value, used_ext in split_attrs(attrs):
        need(tc not in seen, 'attribute %d appears twice' % tc)
        seen.add(tc)
        need(flags & 0x0F == 0, 'attribute %d: low flag nibble %#x' % (tc, flags & 0x0F))
        if tc in ATTR_CATEGORY:
            opt, trans = ATTR_CATEGORY[tc]
            need(bool(flags & F_OPT) == bool(opt) and bool(flags & F_TRANS) == bool(trans),
                 'attribute %d: flags %#x do not match its category (optional=%d transitive=%d)' % (tc, flags, opt, trans))
        if flags & F_PARTIAL:
            need(flags & F_OPT and flags & F_TRANS, 'attribute %d: partial bit on a non optional-transitive attribute' % tc)
        if len(value) > 255:
            need(used_ext, 'attribute %d: %d octets without extended length' % (tc, len(value)))
        sk['order'].append(tc)
        sk['attrs'][tc] = walk_attr(tc, value, asn4)
    return sk


def walk_attr(tc, v, asn4):
    n = len(v)
    if tc == 1:
        need(n == 1, 'ORIGIN length %d' % n)
    elif tc == 2 or tc == 17:
        w = 4 if (asn4 or tc == 17) else 2
        pos, segs = 0, []
        while pos < n:
            need(pos + 2 <= n, 'AS_PATH segment header truncated')
            cnt = v[pos + 1]
            need(1 <= v[pos] <= 4, 'AS_PATH segment type %d' % v[pos])
            need(pos + 2 + cnt * w <= n, 'AS_PATH segment overruns')
            segs.append(cnt)
            pos += 2 + cnt * w
        return {'segments': segs}
    elif tc == 3:
        need(n == 4, 'NEXT_HOP length %d' % n)
    elif tc in (4, 5, 9):
        need(n == 4, 'attribute %d length %d' % (tc, n))
    elif tc == 6:
        need(n == 0, 'ATOMIC_AGGREGATE length %d' % n)
    elif tc == 7:
        need(n == (8 if asn4 else 6), 'AGGREGATOR length %d' % n)
    elif tc == 18:
        need(n == 8, 'AS4_AGGREGATOR length %d' % n)
    elif tc in (8, 10):
        need(n % 4 == 0, 'attribute %d length %d' % (tc, n))
        return {'count': n // 4}
    elif tc == 16:
        need(n % 8 == 0 and n > 0, 'EXTENDED_COMMUNITIES length %d' % n)
        return {'count': n // 8}
    elif tc == 32:
        need(n % 12 == 0, 'LARGE_COMMUNITY length %d' % n)
        return {'count': n // 12}
    elif tc == 14:
        need(n >= 5, 'MP_REACH too short')
        afi, safi, nhl = struct.unpack('!HBB', v[:4])
        need(4 + nhl + 1 <= n, 'MP_REACH next hop length %d overruns' % nhl)
        need(v[4 + nhl] == 0, 'MP_REACH reserved octet %#x' % v[4 + nhl])
        ok_nh = {(1, 1): (4,), (1, 4): (4, 0), (1, 128): (12,), (1, 133): (0, 4), (1, 73): (4, 0, 16), (2, 1): (16, 32), (2, 4): (16, 4),
                 (2, 128): (24,), (2, 133): (0, 16, 4), (25, 70): (4, 16)}.get((afi, safi))
        if ok_nh is not None:
            need(nhl in ok_nh, 'MP_REACH next hop of %d octets for family %d/%d' % (nhl, afi, safi))
        return {'afi': afi, 'safi': safi, 'nh': nhl, 'routes': walk_mp_nlri(afi, safi, v[5 + nhl:], False)}
    elif tc == 15:
        need(n >= 3, 'MP_UNREACH too short')
        afi, safi = struct.unpack('!HB', v[:3])
        return {'afi': afi, 'safi': safi, 'routes': walk_mp_nlri(afi, safi, v[3:], True)}
    elif tc == 22:
        need(n >= 5, 'PMSI_TUNNEL too short')
        idlen = {0: (0,), 6: (4, 16)}.get(v[1])
        if idlen is not None:
            need(n - 5 in idlen, 'PMSI tunnel identifier of %d octets for tunnel type %d' % (n - 5, v[1]))
        return {'tunnel_type': v[1], 'id': n - 5}
    elif tc == 23:
        return {'tlvs': walk_tunnel_encaps(v)}
    return {'len': n}


def walk_mp_nlri(afi, safi, data, withdraw=False):
    """-> list of per-route descriptors (bit lengths etc.)"""
    routes = []
    pos, n = 0, len(data)
    if safi == 1 and afi in (1, 2):
        return [(pl, len(o)) for _, pl, o in split_prefixes(data, 32 if afi == 1 else 128)]
    if safi in (4, 128) and afi in (1, 2):
        maxp = 32 if afi == 1 else 128
        while pos < n:
            bits = data[pos]
            nb = (bits + 7) // 8
            need(pos + 1 + nb <= n, 'labeled/VPN route of %d bits overruns' % bits)
            chunk = data[pos + 1:pos + 1 + nb]
            # label stack: until bottom-of-stack (or the withdraw marker 0x800000)
            q, labels = 0, 0
            while True:
                need(q + 3 <= len(chunk), 'label stack without bottom-of-stack inside the route')
                lab = chunk[q:q + 3]
                q += 3
                labels += 1
                # in a withdrawal the label field may hold the 0x800000 marker instead of a real stack
                if lab[2] & 1 or (withdraw and labels == 1 and lab == b'\x80\x00\x00'):
                    break
            if safi == 128:
                need(q + 8 <= len(chunk), 'VPN route without room for the RD')
                rdt = struct.unpack('!H', chunk[q:q + 2])[0]
                need(rdt in (0, 1, 2), 'RD type %d' % rdt)
                q += 8
            plen = bits - q * 8
            need(0 <= plen <= maxp, 'prefix length %d out of range' % plen)
            need(len(chunk) - q == (plen + 7) // 8, 'prefix of %d bits occupies %d octets' % (plen, len(chunk) - q))
            routes.append({'bits': bits, 'labels': labels, 'plen': plen})
            pos += 1 + nb
        return routes
    if (afi, safi) == (25, 70):
        while pos < n:
            need(pos + 2 <= n, 'EVPN route header truncated')
            rt, ln = data[pos], data[pos + 1]
            need(pos + 2 + ln <= n, 'EVPN route type %d of %d octets overruns' % (rt, ln))
            body = data[pos + 2:pos + 2 + ln]
            walk_evpn(rt, body)
            routes.append({'type': rt, 'len': ln})
            pos += 2 + ln
        return routes
    if safi == 133 and afi in (1, 2):
        while pos < n:
            first = data[pos]
            if first >= 0xF0:
                need(pos + 2 <= n, 'flowspec 2-octet length truncated')
                ln = struct.unpack('!H', data[pos:pos + 2])[0] & 0x0FFF
                hdr = 2
            else:
                ln = first
                hdr = 1
                need(ln < 240, 'flowspec rule length %d in one octet' % ln)
            need(pos + hdr + ln <= n, 'flowspec rule of %d octets overruns the attribute' % ln)
            routes.append({'len': ln, 'components': walk_flowspec(afi, data[pos + hdr:pos + hdr + ln])})
            pos += hdr + ln
        return routes
    if (afi, safi) in ((1, 73), (2, 73)):
        while pos < n:
            bits = data[pos]
            want = 96 if afi == 1 else 192
            need(bits == want, 'SR policy NLRI length %d bits' % bits)
            need(pos + 1 + bits // 8 <= n, 'SR policy NLRI overruns')
            routes.append({'bits': bits})
            pos += 1 + bits // 8
        return routes
    return [{'raw': n}]


def walk_evpn(rt, b):
    n = len(b)

    def ipfield(pos):
        need(pos < n, 'EVPN type %d: IP length octet missing' % rt)
        need(b[pos] in (0, 32, 128), 'EVPN type %d: IP address length %d bits' % (rt, b[pos]))
        return pos + 1 + b[pos] // 8
    if rt == 1:
        need(n == 25, 'EVPN type 1 of %d octets' % n)
    elif rt == 2:
        need(n >= 33, 'EVPN type 2 of %d octets' % n)
        need(b[22] == 48, 'EVPN type 2 MAC length %d' % b[22])
        end = ipfield(29)
        need(n - end in (3, 6), 'EVPN type 2: %d octets of labels' % (n - end))
    elif rt == 3:
        end = ipfield(12)
        need(end == n, 'EVPN type 3 of %d octets, fields end at %d' % (n, end))
    elif rt == 4:
        end = ipfield(18)
        need(end == n, 'EVPN type 4 of %d octets, fields end at %d' % (n, end))
    elif rt == 5:
        need(n in (34, 58), 'EVPN type 5 of %d octets' % n)


def walk_flowspec(afi, rule):
    comps = []
    pos, n = 0, len(rule)
    last = 0
    while pos < n:
        ct = rule[pos]
        need(ct > last, 'flowspec component types not strictly increasing (%d after %d)' % (ct, last))
        last = ct
        pos += 1
        if ct in (1, 2):
            need(pos < n, 'flowspec prefix component truncated')
            bits = rule[pos]
            if afi == 1:
                need(bits <= 32, 'flowspec IPv4 prefix length %d' % bits)
                nb = (bits + 7) // 8
                pos += 1
            else:
                need(pos + 1 < n, 'flowspec IPv6 prefix offset missing')
                off = rule[pos + 1]
                need(bits <= 128 and off <= bits, 'flowspec IPv6 prefix length %d offset %d' % (bits, off))
                nb = (bits - off + 7) // 8
                pos += 2
            need(pos + nb <= n, 'flowspec prefix overruns the rule')
            pos += nb
            comps.append((ct, bits))
        else:
            terms = 0
            while True:
                need(pos < n, 'flowspec component %d without end-of-list operator' % ct)
                op = rule[pos]
                size = 1 << ((op >> 4) & 3)
                need(pos + 1 + size <= n, 'flowspec operand overruns the rule')
                pos += 1 + size
                terms += 1
                if op & 0x80:
                    break
            comps.append((ct, terms))
    return comps


def walk_tunnel_encaps(v):
    out = []
    pos, n = 0, len(v)
    while pos < n:
        need(pos + 4 <= n, 'tunnel TLV header truncated')
        tt, ln = struct.unpack('!HH', v[pos:pos + 4])
        need(pos + 4 + ln <= n, 'tunnel TLV of %d octets overruns the attribute' % ln)
        out.append({'tunnel_type': tt, 'sub': walk_subtlvs(v[pos + 4:pos + 4 + ln])})
        pos += 4 + ln
    return out


FIXED_SUB = {6: (6, 10, 22), 7: (2, 6, 18), 12: (6,), 13: (2, 6, 18), 14: (3,), 15: (2,)}
SEG_SUB = {1: (6,), 2: (18,), 3: (6, 10), 4: (18, 34), 5: (10, 14), 6: (10, 14), 7: (22, 26), 8: (34, 38), 9: (6,)}


def walk_subtlvs(v, inside_seglist=False):
    out = []
    pos, n = 0, len(v)
    while pos < n:
        need(pos + 2 <= n, 'sub-TLV header truncated')
        st = v[pos]
        if st >= 128 and not inside_seglist:
            need(pos + 3 <= n, 'sub-TLV 2-octet length truncated')
            ln = struct.unpack('!H', v[pos + 1:pos + 3])[0]
            hdr = 3
        else:
            ln = v[pos + 1]
            hdr = 2
        need(pos + hdr + ln <= n, 'sub-TLV %d of %d octets overruns its container' % (st, ln))
        val = v[pos + hdr:pos + hdr + ln]
        ent = {'type': st, 'len': ln}
        if inside_seglist:
            if st in SEG_SUB:
                need(ln in SEG_SUB[st], 'segment sub-TLV %d with length %d' % (st, ln))
        elif st == 128:
            need(ln >= 1, 'segment list without reserved octet')
            ent['segments'] = walk_subtlvs(val[1:], inside_seglist=True)
        elif st in FIXED_SUB:
            need(ln in FIXED_SUB[st], 'sub-TLV %d with length %d' % (st, ln))
        out.append(ent)
        pos += hdr + ln
    return out
