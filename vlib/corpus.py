"""Well-formed UPDATE bodies built with the reference encoder: one per address family / route type /
attribute mix, plus families the agent has no decoder for.  Shared by C11 (mutation base), C18 (every
received UPDATE is counted), C03 (every received UPDATE restarts the hold timer) and C10."""
from vlib import refcodec as rc

_CACHE = None


def update_bodies():
    """-> [(name, body)]"""
    global _CACHE
    if _CACHE is not None:
        return _CACHE
    out = []

    def add(name, **kw):
        out.append((name, rc.update_body(**kw)))
    base = rc.a_origin(0) + rc.a_as_path([(2, [65001, 65002])], True)
    rd_b = rc.rd('65001:10')
    esi_b = rc.esi(0, value=5)
    nh6 = rc.ip6('2001:db8::1')
    ll6 = rc.ip6('fe80::1')
    vnh4 = b'\x00' * 8 + rc.ip4('10.0.0.1')
    vnh6 = b'\x00' * 8 + nh6
    add('v4-classic', withdrawn=rc.prefix4('10.9.0.0/16') + rc.prefix4('10.8.1.0/24'),
        attrs=base + rc.a_next_hop('10.0.0.1') + rc.a_med(5) + rc.a_local_pref(100) + rc.a_atomic() +
        rc.a_aggregator(65001, '10.0.0.9', True) + rc.a_communities([0xFFFFFF01, 65001 << 16 | 7]) +
        rc.a_originator('10.0.0.3') + rc.a_cluster_list(['10.0.0.4', '10.0.0.5']) +
        rc.a_ext_communities([b'\x00\x02\xfd\xe9\x00\x00\x00\x64', b'\x03\x0c\x00\x00\x00\x00\x00\x08']) +
        rc.a_large_communities([(65001, 1, 2)]),
        nlri=rc.prefix4('192.168.1.0/24') + rc.prefix4('172.16.0.0/12') + rc.prefix4('0.0.0.0/0'))
    add('mp-v4u', attrs=base + rc.a_mp_reach(1, 1, rc.ip4('10.0.0.1'), rc.prefix4('10.1.0.0/16') + rc.prefix4('10.2.3.0/24')))
    add('mp-v6u', attrs=base + rc.a_mp_reach(2, 1, nh6, rc.prefix6('2001:db8:1::/48') + rc.prefix6('2001:db8:2:3::/64')))
    add('mp-v6u-ll', attrs=base + rc.a_mp_reach(2, 1, nh6 + ll6, rc.prefix6('2001:db8:1::/64') + rc.prefix6('::/0')))
    add('mp-v6u-unreach', attrs=rc.a_mp_unreach(2, 1, rc.prefix6('2001:db8:1::/48') + rc.prefix6('2001:db8::/127')))
    add('mp-lu4', attrs=base + rc.a_mp_reach(1, 4, rc.ip4('10.0.0.1'), rc.labeled_route('10.1.0.0/16', [100]) +
                                             rc.labeled_route('10.2.3.0/24', [200, 300])))
    add('mp-lu6', attrs=base + rc.a_mp_reach(2, 4, nh6, rc.labeled_route('2001:db8:1::/48', [100])))
    add('mp-lu4-unreach', attrs=rc.a_mp_unreach(1, 4, rc.labeled_route('10.1.0.0/16', [], raw_label=rc.WITHDRAW_LABEL)))
    add('mp-vpn4', attrs=base + rc.a_ext_communities([b'\x00\x02\xfd\xe9\x00\x00\x00\x64']) +
        rc.a_mp_reach(1, 128, vnh4, rc.vpn_route('10.1.0.0/16', rd_b, [100]) + rc.vpn_route('10.2.3.4/32', rd_b, [7])))
    add('mp-vpn4-unreach', attrs=rc.a_mp_unreach(1, 128, rc.vpn_route('10.1.0.0/16', rd_b, [], raw_label=rc.WITHDRAW_LABEL)))
    add('mp-vpn6', attrs=base + rc.a_mp_reach(2, 128, vnh6, rc.vpn_route('2001:db8:1::/48', rd_b, [100])))
    add('mp-vpn6-unreach', attrs=rc.a_mp_unreach(2, 128, rc.vpn_route('2001:db8:1::/48', rd_b, [], raw_label=rc.WITHDRAW_LABEL)))
    evpn = [rc.evpn_type1(rd_b, esi_b, 100, [10]),
            rc.evpn_type2(rd_b, esi_b, 100, '00-11-22-33-44-55', '10.1.1.1', [10]),
            rc.evpn_type2(rd_b, esi_b, 100, '00-11-22-33-44-55', '2001:db8::5', [10, 20]),
            rc.evpn_type3(rd_b, 100, '10.1.1.1'), rc.evpn_type3(rd_b, 100, '2001:db8::7'),
            rc.evpn_type4(rd_b, esi_b, '10.1.1.1'),
            rc.evpn_type5(rd_b, esi_b, 100, '10.5.0.0/16', '10.0.0.9', [10]),
            rc.evpn_type5(rd_b, esi_b, 100, '2001:db8:5::/48', '2001:db8::9', [10])]
    for i, r in enumerate(evpn):
        add('mp-evpn-%d' % i, attrs=base + rc.a_mp_reach(25, 70, rc.ip4('10.0.0.1'), r))
    add('mp-evpn-unreach', attrs=rc.a_mp_unreach(25, 70, evpn[1] + evpn[3]))
    fs = rc.fs_rule([rc.fs_prefix4(1, '10.1.0.0/16'), rc.fs_prefix4(2, '10.2.0.0/24'),
                     rc.fs_component(3, rc.fs_numeric([(0, '=', 6), (0, '=', 17)])),
                     rc.fs_component(5, rc.fs_numeric([(0, '>=', 1024), (1, '<=', 70000)]))])
    add('mp-fs4', attrs=base + rc.a_mp_reach(1, 133, b'', fs))
    add('mp-fs4-unreach', attrs=rc.a_mp_unreach(1, 133, fs))
    fs6 = rc.fs_rule([bytes([1, 48, 0]) + rc.ip6('2001:db8:1::')[:6],
                      rc.fs_component(3, rc.fs_numeric([(0, '=', 6)]))])
    add('mp-fs6', attrs=base + rc.a_mp_reach(2, 133, b'', fs6))
    # families without a decoder in the agent: still well-formed RFC 4760 attributes
    add('mp-unknown-1-129', attrs=base + rc.a_mp_reach(1, 129, rc.ip4('10.0.0.1'), b'\x00'))
    add('mp-unknown-1-129-unreach', attrs=rc.a_mp_unreach(1, 129, b'\x00'))
    add('mp-unknown-3-1-unreach', attrs=rc.a_mp_unreach(3, 1, b''))
    add('mp-unknown-2-2-unreach', attrs=rc.a_mp_unreach(2, 2, rc.prefix6('ff0e::/16')))
    add('mp-unknown-1-5-unreach', attrs=rc.a_mp_unreach(1, 5, b'\x18\x0a\x01\x02'))
    add('mp-v4-multicast', attrs=base + rc.a_mp_reach(1, 2, rc.ip4('10.0.0.1'), rc.prefix4('224.1.0.0/16')))
    add('eor-v4', )
    add('eor-v6', attrs=rc.a_mp_unreach(2, 1, b''))
    add('eor-vpn4', attrs=rc.a_mp_unreach(1, 128, b''))
    _CACHE = out
    return out
