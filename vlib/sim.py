"""Sim facade: builds a fresh agent (CONF, running_config, handler, BGPPeering, FSM) on a fresh
virtual reactor for every generated case.  See DESIGN.md section 4.1."""
import copy
import queue

from vlib import env
env.install()

from vlib import simnet  # noqa: E402
from oslo_config import cfg  # noqa: E402
import yabgp.config  # noqa: E402,F401  (registers bgp / time option groups)
from yabgp.api import app as api_app  # noqa: E402  (registers rest options, builds the Flask app)
import yabgp.api.utils as api_utils  # noqa: E402
import yabgp.api.v1 as api_v1  # noqa: E402
from yabgp.common import constants as bgp_cons  # noqa: E402
from yabgp.core import factory as core_factory  # noqa: E402
from yabgp.core import fsm as core_fsm  # noqa: E402
from yabgp.core import protocol as core_protocol  # noqa: E402
from yabgp.handler import BaseHandler  # noqa: E402

CONF = cfg.CONF
STATE_NAMES = dict(bgp_cons.stateDescr)


class _Clock(object):
    """Replaces the `time` module inside yabgp modules; only .time() is used there."""

    def __init__(self, epoch=1600000000.0):
        self.sim = None
        self.epoch = epoch

    def time(self):
        return self.epoch + (self.sim.now if self.sim is not None else 0.0)

    def __getattr__(self, name):
        import time as _t
        return getattr(_t, name)


CLOCK = _Clock()
for _m in (core_protocol, core_fsm, api_utils, api_v1):
    _m.time = CLOCK


class RecordingHandler(BaseHandler):
    """Application handler that records every callback into the simulator transcript."""

    def __init__(self, sim):
        super(RecordingHandler, self).__init__()
        self.sim = sim
        self.calls = []

    def _rec(self, name, payload):
        self.calls.append((self.sim.now, name, payload))
        self.sim.log('handler', None, (name, payload))

    def init(self):
        pass

    def on_update_error(self, peer, timestamp, msg):
        self._rec('on_update_error', copy.deepcopy(msg))

    def update_received(self, peer, timestamp, msg):
        self._rec('update_received', copy.deepcopy(msg))

    def keepalive_received(self, peer, timestamp):
        self._rec('keepalive_received', None)

    def open_received(self, peer, timestamp, result):
        self._rec('open_received', copy.deepcopy(result))

    def send_open(self, peer, timestamp, result):
        self._rec('send_open', copy.deepcopy(result))

    def route_refresh_received(self, peer, msg, msg_type):
        self._rec('route_refresh_received', (copy.deepcopy(msg), msg_type))

    def notification_received(self, peer, msg):
        self._rec('notification_received', copy.deepcopy(msg))

    def on_connection_lost(self, peer):
        self._rec('on_connection_lost', None)

    def on_connection_failed(self, peer, msg):
        self._rec('on_connection_failed', msg)

    def on_established(self, peer, msg):
        self._rec('on_established', None)


DEFAULTS = dict(
    local_as=65001, remote_as=65002, local_addr='10.0.0.1', remote_addr='10.0.0.2',
    hold_time=180, connect_retry_time=60, idle_hold_time=30, keep_alive_time=60,
    delay_open_time=10,
    four_bytes_as=True, route_refresh=True, cisco_route_refresh=True, enhanced_route_refresh=True,
    graceful_restart=True, cisco_multi_session=True, add_path=None,
    afi_safi=('ipv4',), rib=False, username='admin', password='admin', md5=None,
)


class Sim(object):
    """One fresh agent on one fresh virtual reactor."""

    def __init__(self, handler_factory=None, **config):
        c = dict(DEFAULTS)
        unknown = set(config) - set(c)
        if unknown:
            raise simnet.HarnessError('unknown config keys %s' % sorted(unknown))
        c.update(config)
        self.config = c
        self.reactor = simnet.SimReactor(local_host=c['local_addr']).install()
        CLOCK.sim = self.reactor
        # --- configuration: overrides first (set_override clears oslo's attribute cache) ...
        CONF.set_override('hold_time', c['hold_time'], group='time')
        CONF.set_override('connect_retry_time', c['connect_retry_time'], group='time')
        CONF.set_override('idle_hold_time', c['idle_hold_time'], group='time')
        CONF.set_override('keep_alive_time', c['keep_alive_time'], group='time')
        CONF.set_override('delay_open_time', c['delay_open_time'], group='time')
        CONF.set_override('afi_safi', list(c['afi_safi']), group='bgp')
        CONF.set_override('rib', bool(c['rib']), group='bgp')
        CONF.set_override('username', c['username'], group='rest')
        CONF.set_override('password', c['password'], group='rest')
        # --- ... then the running configuration, built the way yabgp.config.get_bgp_config and
        # yabgp.agent.prepare_twisted_service build it.
        local_cap = {
            'four_bytes_as': c['four_bytes_as'],
            'route_refresh': c['route_refresh'],
            'cisco_route_refresh': c['cisco_route_refresh'],
            'enhanced_route_refresh': c['enhanced_route_refresh'],
            'graceful_restart': c['graceful_restart'],
            'cisco_multi_session': c['cisco_multi_session'],
            'add_path': c['add_path'],
        }
        if 'vpnv4' in c['afi_safi'] or 'vpnv6' in c['afi_safi']:
            ext = []
            for afi_safi, nh in (('ipv4', 'ipv6'), ('ipv4_mcast', 'ipv6'), ('vpnv4', 'ipv6')):
                if afi_safi in bgp_cons.AFI_SAFI_STR_DICT:
                    ext.append({'afi_safi': bgp_cons.AFI_SAFI_STR_DICT[afi_safi],
                                'nexthop_afi': bgp_cons.AFI_STR_DICT[nh]})
            local_cap['ext_nexthop'] = ext
        afi_safi_list = [bgp_cons.AFI_SAFI_STR_DICT[a] for a in c['afi_safi']]
        local_cap['afi_safi'] = afi_safi_list
        running = {
            'remote_as': c['remote_as'], 'remote_addr': c['remote_addr'],
            'local_as': c['local_as'], 'local_addr': c['local_addr'],
            'md5': c['md5'], 'afi_safi': afi_safi_list,
            'capability': {'local': local_cap, 'remote': {}},
        }
        CONF.bgp.running_config = running
        self.running = running
        self.handler = handler_factory(self) if handler_factory else RecordingHandler(self.reactor)
        self.handler.init()
        self.peering = core_factory.BGPPeering(
            myasn=c['local_as'], myaddr=c['local_addr'], peerasn=c['remote_as'],
            peeraddr=c['remote_addr'], afisafi=afi_safi_list, md5=c['md5'], handler=self.handler)
        running['factory'] = self.peering
        self.fsm = self.peering.fsm
        self._client = None

    # ------------------------------------------------------------------ observation
    @property
    def now(self):
        return self.reactor.now

    @property
    def state(self):
        return STATE_NAMES.get(self.fsm.state, str(self.fsm.state))

    @property
    def errors(self):
        return self.reactor.errors

    def tracked_protocol(self):
        return self.fsm.protocol

    def current(self):
        """The connector whose protocol the FSM tracks (or None)."""
        p = self.fsm.protocol
        for c in self.reactor.connectors:
            if c.protocol is not None and c.protocol is p:
                return c
        return None

    def newest(self):
        return self.reactor.connectors[-1] if self.reactor.connectors else None

    def writes(self, connector=None, since=0):
        out = []
        for i, (t, kind, cid, payload) in enumerate(self.reactor.transcript[since:]):
            if kind == 'write' and (connector is None or cid == connector.id):
                out.append((t, cid, payload))
        return out

    def mark(self):
        return len(self.reactor.transcript)

    def since(self, mark):
        return self.reactor.transcript[mark:]

    # ------------------------------------------------------------------ events
    def boot(self):
        """What agent.prepare_twisted_service schedules: automatic_start (delay collapsed to 0)."""
        self.reactor._guard('boot', self.peering.automatic_start)
        self.reactor.settle(fire_due=False)

    def settle(self, **kw):
        return self.reactor.settle(**kw)

    def client(self):
        if self._client is None:
            self._client = api_app.app.test_client()
        return self._client

    def rest(self, method, path, json_body=None, auth=('admin', 'admin'), raw_body=None, settle=True):
        import base64
        headers = {}
        if auth is not None:
            tok = base64.b64encode(('%s:%s' % auth).encode()).decode()
            headers['Authorization'] = 'Basic ' + tok
        kw = {}
        if json_body is not None:
            kw['json'] = json_body
        elif raw_body is not None:
            kw['data'] = raw_body
            headers['Content-Type'] = 'application/json'
        resp = self.client().open(path, method=method, headers=headers, **kw)
        body = None
        try:
            body = resp.get_json(silent=True)
        except Exception:
            body = None
        self.reactor.log('rest', None, (method, path, resp.status_code))
        if settle:
            self.reactor.settle(fire_due=False)
        return resp.status_code, body

    def manual_stop(self):
        return self.rest('GET', '/v1/peer/%s/manual-stop' % self.config['remote_addr'])

    def manual_start(self):
        return self.rest('GET', '/v1/peer/%s/manual-start' % self.config['remote_addr'])

    def rest_state(self):
        code, body = self.rest('GET', '/v1/peer/%s/state' % self.config['remote_addr'])
        return body['peer']['fsm'] if code == 200 and body else None


def new_queue():
    return queue.Queue()
