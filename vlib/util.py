"""Small helpers: root-cause signatures for exceptions and value mismatches."""
import traceback


def exc_sig(e):
    """<ExceptionType>@<innermost yabgp file:function> (falls back to the innermost frame)."""
    tb = traceback.extract_tb(e.__traceback__)
    inner = None
    for fr in tb:
        if '/yabgp/' in fr.filename and '/vlib/' not in fr.filename:
            inner = fr
    if inner is not None:
        loc = '%s:%s' % (inner.filename.split('/yabgp/', 1)[1], inner.name)
    elif tb:
        loc = '%s:%s' % (tb[-1].filename.rsplit('/', 1)[-1], tb[-1].name)
    else:
        loc = '?'
    return '%s@%s' % (type(e).__name__, loc)


def norm(v):
    """tuple == list, dict keys as given; used before comparing decoded values."""
    if isinstance(v, (list, tuple)):
        return [norm(x) for x in v]
    if isinstance(v, dict):
        return {k: norm(x) for k, x in v.items()}
    return v


def diff_path(exp, got, path=''):
    """First differing path between two normalised values, list indices rendered as []. None if equal."""
    exp, got = norm(exp), norm(got)
    return _diff(exp, got, path)


def _diff(a, b, path):
    if type(a) is not type(b) and not (isinstance(a, (int, float)) and isinstance(b, (int, float))
                                       and not isinstance(a, bool) and not isinstance(b, bool)):
        return path + '<type:%s!=%s>' % (type(a).__name__, type(b).__name__)
    if isinstance(a, dict):
        ka, kb = set(a), set(b)
        if ka != kb:
            miss = sorted(map(str, ka - kb))
            extra = sorted(map(str, kb - ka))
            # numeric keys (capability / attribute / TLV codes) would give one signature per code for one root cause
            if all(k.lstrip('-').isdigit() for k in miss + extra) or len(miss) + len(extra) > 2:
                miss, extra = (['#'] if miss else []), (['#'] if extra else [])
            return path + '<keys:missing=%s,extra=%s>' % (','.join(miss), ','.join(extra))
        for k in sorted(a, key=str):
            d = _diff(a[k], b[k], '%s/%s' % (path, k))
            if d:
                return d
        return None
    if isinstance(a, list):
        if len(a) != len(b):
            return path + '<len:%s>' % ('more' if len(b) > len(a) else 'fewer')
        for x, y in zip(a, b):
            d = _diff(x, y, path + '[]')
            if d:
                return d
        return None
    if a != b:
        return path + '<value>'
    return None
