"""Event driver for the session properties (C01, C02, C12, C13, C18): a fresh agent on the virtual
reactor, the event alphabet of C01 with enabledness by construction, the reference model run in
lock-step, history monitors and an abstract fingerprint for state de-duplication."""
from vlib import refcodec as rc
from vlib import session as ss
from vlib.fsm_model import Model, msg_matches
from vlib.sim import Sim

PEER_EVENTS = [
    ['open', 'valid', 90], ['open', 'h0', 0], ['open', 'h3', 3], ['open', 'badver', 90], ['open', 'badas', 90], ['open', 'badas4', 90],
    ['open', 'h1', 1], ['open', 'h2', 2], ['ka'], ['upd'], ['upd', 'max'], ['notif', 'ver'], ['notif', 'other'], ['rr'],
    ['bad_marker'], ['bad_len'], ['bad_type'], ['close'],
]
DEFAULT_CFG = {'hold': 180, 'idle_hold': 30, 'connect_retry': 60}


def encode_event(sim, ev, n=0):
    k = ev[0]
    if k == 'open':
        fl, hold = ev[1], ev[2]
        if fl == 'badver':
            return ss.peer_open(sim, hold=hold, version=3)
        if fl == 'badas4':     # the My-AS field names the configured peer AS, the 4-octet-AS capability another one (RFC 6793: the capability counts)
            return ss.peer_open(sim, hold=hold, asn=sim.config['remote_as'] + 97, my_as=sim.config['remote_as'])
        if fl == 'badas':
            return ss.peer_open(sim, hold=hold, asn=sim.config['remote_as'] + 1)
        return ss.peer_open(sim, hold=hold)
    if k == 'ka':
        return rc.keepalive()
    if k == 'upd' and len(ev) > 1 and ev[-1] == 'max':
        # a well-formed UPDATE of exactly 4096 octets, the largest message RFC 4271 allows (filled up with an unknown
        # optional transitive attribute)
        pfx = '10.%d.%d.0/24' % ((n >> 8) & 0xFF, n & 0xFF)
        attrs = rc.a_origin(0) + rc.a_as_path([(2, [65002])], True) + rc.a_next_hop('10.0.0.2')
        room = 4096 - 19 - 4 - len(attrs) - 4 - 4
        return rc.update(attrs=attrs + rc.a_unknown(99, b'\x5a' * room, flags=0xC0, ext=True), nlri=rc.prefix4(pfx))
    if k == 'upd':
        return ss.marked_update(n & 0xFFFF)[0]
    if k == 'notif':
        if ev[1] == 'ver':
            return rc.notification(2, 1)
        if len(ev) >= 4:       # ['notif', 'other', code, subcode, data-hex]: the RFC treats every code alike
            return rc.notification(ev[2], ev[3], bytes.fromhex(ev[4]) if len(ev) > 4 else b'')
        return rc.notification(6, 2)
    if k == 'rr':
        return rc.route_refresh(1, 1)
    if k == 'bad_marker':
        return b'\xff' * 15 + b'\x00' + b'\x00\x13\x04'
    if k == 'bad_len' and len(ev) >= 3:
        # ['bad_len', type, body octets]: length inside 19..4096 but below the minimum RFC 4271 6.1 sets for that type
        return rc.frame(ev[1], b'\x00' * ev[2])
    if k == 'bad_len':
        return rc.MARKER + b'\x00\x12\x04'
    if k == 'bad_type':
        return rc.frame(9, b'')
    raise ValueError(ev)


def frame_desc(mtype, body):
    if mtype == rc.OPEN:
        return ('OPEN',)
    if mtype == rc.KEEPALIVE:
        return ('KEEPALIVE',)
    if mtype == rc.NOTIFICATION:
        return ('NOTIFICATION', body[0] if len(body) > 0 else None, body[1] if len(body) > 1 else None)
    if mtype == rc.UPDATE:
        return ('UPDATE',)
    if mtype in (rc.ROUTE_REFRESH, rc.ROUTE_REFRESH_CISCO):
        return ('ROUTE-REFRESH',)
    return ('TYPE-%d' % mtype,)


class Obs(object):
    """What happened during one step."""

    def __init__(self):
        self.state = None
        self.msgs = []          # [(cid, desc)]
        self.closed = []        # cids on which the agent called loseConnection
        self.connects = []      # cids of new attempts
        self.escaped = []
        self.unframed = None
        self.handler = []

    def brief(self):
        return 'state=%s msgs=%s close=%s connect=%s' % (self.state, [m for _, m in self.msgs], bool(self.closed),
                                                         bool(self.connects))


class Driver(object):
    def __init__(self, cfg=None, regime='single', model=True, sim_config=None):
        c = dict(DEFAULT_CFG)
        c.update(cfg or {})
        self.cfg = c
        kw = dict(hold_time=c['hold'], idle_hold_time=c['idle_hold'], connect_retry_time=c['connect_retry'])
        kw.update(sim_config or {})
        self.sim = Sim(**kw)
        self.sim.reactor.segments = c.get('seg')      # every peer message arrives in that many TCP segments
        self.regime = regime
        self.model = Model(c['hold'], c['connect_retry'], c['idle_hold']) if model else None
        self.failures = []       # [(sig, detail)]
        self.steps = 0
        self.history = []        # events applied
        self.connlog = {}        # cid -> [('tx', desc) | ('rx', kind)]
        self.cells = set()       # (model state, event kind) exercised
        self.diverged = False
        self.nupd = 0
        self.booted = False

    # ------------------------------------------------------------------ situation
    def live(self):
        """the live connection the peer can talk on (single-connection regime: at most one)"""
        out = []
        for c in self.sim.reactor.connectors:
            tr = c.transport
            if c.state == 'connected' and tr is not None and tr.connected and not tr.disconnecting:
                out.append(c)
        return out

    def pending(self):
        return self.sim.reactor.attempts()

    def enabled(self):
        if not self.booted:
            return [['boot']]
        ev = []
        pend = self.pending()
        live = self.live()
        if pend:
            ev += [['ok'], ['refused'], ['timeout']]
        if live:
            ev += [list(e) for e in PEER_EVENTS]
        if not pend and self._next_tick_time() is not None:
            ev.append(['tick'])
        ev.append(['stop'])
        stopped = self.model.stopped if self.model else not self.sim.fsm.allow_automatic_start
        if not (stopped and (pend or live)) or self.regime != 'single':
            ev.append(['start'])
        return ev

    def _next_tick_time(self):
        ti = self.sim.reactor.next_time()
        tm = self.model.next_due() if self.model else None
        cands = [t for t in (ti, tm) if t is not None]
        return min(cands) if cands else None

    # ------------------------------------------------------------------ apply
    def apply(self, ev):
        """Apply one event, observe, compare with the model.  Returns the Obs."""
        sim = self.sim
        r = sim.reactor
        mark = sim.mark()
        nerr = len(sim.errors)
        before = sim.state
        mstate = self.model.state if self.model else None
        mstopped = self.model.stopped if self.model else None
        k = ev[0]
        target = None
        if k == 'boot':
            sim.boot()
            self.booted = True
        elif k == 'ok':
            target = self.pending()[0]
            r.accept(target)
        elif k == 'refused':
            target = self.pending()[0]
            r.refuse(target)
        elif k == 'timeout':
            target = self.pending()[0]
            r.advance_to(target.timeoutID.time)
        elif k == 'close':
            target = self.live()[0]
            r.peer_close(target, clean=True)
        elif k == 'tick':
            r.advance_to(self._next_tick_time())
        elif k == 'stop':
            sim.manual_stop()
        elif k == 'start':
            sim.manual_start()
        else:
            target = self.live()[0]
            self.nupd += 1
            self.connlog.setdefault(target.id, []).append(('rx', ev))
            r.peer_send(target, encode_event(sim, ev, self.nupd))
        r.settle(fire_due=True)
        self.steps += 1
        self.history.append(ev)

        obs = Obs()
        obs.state = sim.state
        tr = sim.since(mark)
        try:
            for cid, mtype, body in ss.frames_written(tr):
                d = frame_desc(mtype, body)
                obs.msgs.append((cid, d))
                self.connlog.setdefault(cid, []).append(('tx', d))
        except rc.WalkError as e:
            obs.unframed = str(e)
        for t, kind, cid, payload in tr:
            if kind == 'loseConnection':
                obs.closed.append(cid)
            elif kind == 'connectTCP':
                obs.connects.append(cid)
            elif kind == 'handler':
                obs.handler.append(payload[0])
        obs.escaped = sim.errors[nerr:]
        self._generic_checks(ev, obs, before, target)
        if self.model is not None and not self.diverged:
            self._model_check(ev, obs, mstate, mstopped)
        return obs

    # ------------------------------------------------------------------ oracles
    def _fail(self, sig, detail):
        self.failures.append((sig, detail))

    def _generic_checks(self, ev, obs, before, target):
        for e in obs.escaped:
            self._fail('escaped:%s@%s' % (e[2], e[3]), 'exception escaped %s during %r: %s' % (e[1], ev, e[4]))
        if obs.unframed:
            self._fail('unframed-output', obs.unframed)
        if self.sim.reactor.livelock:
            self._fail('livelock', 'zero-delay work never quiesces after %r' % (ev,))
        # Established only after OPEN / OPEN / KEEPALIVE / KEEPALIVE on the current connection
        if obs.state == 'ESTABLISHED' and before != 'ESTABLISHED':
            cur = self.sim.current()
            log = self.connlog.get(cur.id, []) if cur is not None else []
            want = [lambda x: x == ('tx', ('OPEN',)),
                    lambda x: x[0] == 'rx' and x[1][0] == 'open' and x[1][1] in ('valid', 'h0', 'h3'),
                    lambda x: x == ('tx', ('KEEPALIVE',)),
                    lambda x: x[0] == 'rx' and x[1][0] == 'ka']
            i = 0
            for entry in log:
                if i < 4 and want[i](entry):
                    i += 1
            if cur is None or i < 4:
                self._fail('established-without-handshake:step%d' % i,
                           'ESTABLISHED reported but connection log is %r' % (log,))

    def _model_check(self, ev, obs, mstate, mstopped):
        now = self.sim.now
        kind = ev[0]
        if kind == 'boot':
            outs = self.model.outcomes(('start',), now)
        else:
            outs = self.model.outcomes(tuple(ev), now)
        self.cells.add((mstate + ('-stopped' if mstopped else ''), kind if kind != 'open' else 'open-' + ev[1]))
        cur_ids = set(c.id for c in self.sim.reactor.connectors if c.state in ('connected', 'connecting'))
        newest = self.sim.reactor.connectors[-1].id if self.sim.reactor.connectors else None
        got_msgs = [m for _, m in obs.msgs]
        chosen = None
        for o in outs:
            if obs.state not in o.states:
                continue
            if len(o.msgs) != len(got_msgs) or not all(msg_matches(p, g) for p, g in zip(o.msgs, got_msgs)):
                continue
            if bool(o.close) != bool(obs.closed):
                # a close the model demands is also satisfied when the connection is already gone
                if not (o.close and kind == 'ok' and False):
                    continue
            if bool(o.connect) != bool(obs.connects):
                continue
            chosen = o
            break
        if chosen is None:
            o = outs[0]
            aspects = []
            if obs.state not in o.states:
                aspects.append('state=%s' % obs.state)
            if len(o.msgs) != len(got_msgs) or not all(msg_matches(p, g) for p, g in zip(o.msgs, got_msgs)):
                aspects.append('msgs=%s' % ('+'.join(_short(m) for m in got_msgs) or 'none'))
            if bool(o.close) != bool(obs.closed):
                aspects.append('close' if obs.closed else 'no-close')
            if bool(o.connect) != bool(obs.connects):
                aspects.append('connect' if obs.connects else 'no-connect')
            evname = kind if kind != 'open' else 'open-' + ev[1]
            if kind == 'notif':
                evname = 'notif-' + ev[1]
            sig = 'model:%s%s/%s/%s' % (mstate, '-stopped' if mstopped else '', evname, ','.join(aspects))
            self._fail(sig, 'after %r in model state %s: observed %s; admissible: %r'
                       % (ev, mstate, obs.brief(), outs))
            self.diverged = True
            return
        if chosen.apply:
            chosen.apply()
        # every message goes to the connection the state machine tracks (the newest one)
        for cid, m in obs.msgs:
            if cid != newest:
                self._fail('write-to-stale-connection', '%r written to connector %s, newest is %s' % (m, cid, newest))

    # ------------------------------------------------------------------ fingerprint
    def fingerprint(self):
        sim = self.sim
        fsm = sim.fsm
        now = sim.now

        def tmr(t):
            dc = t.delayed_call
            if dc is None or not dc.active():
                return None
            return round(dc.time - now, 6)
        conns = []
        for c in sim.reactor.connectors:
            if c.state in ('connecting', 'connected'):
                tr = c.transport
                p = c.protocol
                conns.append((c.state, bool(tr and tr.connected), bool(tr and tr.disconnecting),
                              bool(p and p.disconnected), len(getattr(p, '_receive_buffer', b'') or b''),
                              bool(p and p.fourbytesas), p is fsm.protocol,
                              round(c.timeoutID.time - now, 6) if c.timeoutID is not None and c.timeoutID.active() else None))
        cap = sim.running['capability']
        fp = (fsm.state, fsm.allow_automatic_start, fsm.hold_time, round(float(fsm.keep_alive_time), 6),
              tmr(fsm.connect_retry_timer), tmr(fsm.hold_timer), tmr(fsm.keep_alive_timer), tmr(fsm.idle_hold_timer),
              tmr(fsm.delay_open_timer), tuple(conns), tuple(sorted(cap['local'])), tuple(sorted(cap['remote'])),
              len(sim.reactor._soon), sim.peering.peer_id, sim.peering.bgp_id is not None,
              fsm.protocol is not None and sim.peering.estab_protocol is fsm.protocol,
              self.model.summary(now) if self.model else None, self.booted)
        return fp


def _short(m):
    if m[0] == 'NOTIFICATION':
        return 'N%s.%s' % (m[1], m[2])
    return m[0][:2]


def run_events(events, cfg=None, regime='single', stop_on_failure=True):
    """Replay an explicit event list on a fresh driver.  Events that are not enabled end the replay."""
    d = Driver(cfg, regime=regime)
    for ev in events:
        en = d.enabled()
        if list(ev) not in en and not (ev[0] == 'notif' and list(ev[:2]) in en) and not (ev[0] == 'bad_len' and ['bad_len'] in en):
            d.failures.append(('harness:not-enabled', 'event %r not enabled after %r' % (ev, d.history)))
            break
        d.apply(list(ev))
        if d.failures and stop_on_failure:
            break
    return d
