"""C16 - REST control surface is authenticated and state-gated; sends are faithful.

Matrix: every rule of the URL map under /v1/peer/ (enumerated at run time) x methods x credential
classes x session states x bodies.  Sends: Hypothesis-generated UPDATE requests in the REST input
form on eBGP and iBGP sessions; the frame found on the simulated transport is decoded by refcodec
and compared with the request.
"""
import copy

from hypothesis import strategies as st

from vlib import refcodec as rc
from vlib import session as ss
from vlib import strategies as vs
from vlib.runner import hyp_run
from vlib.sim import Sim, api_app

PROPERTY = 'C16'
RULE = ('matrix: every /v1/peer/ rule x {GET,HEAD,POST,PUT,DELETE,PATCH,OPTIONS} x {no credentials, wrong user, wrong password, '
        'empty password, prefix / longer / other case, empty user, swapped, right; a second configured account} x {Idle-fresh, Idle-stopped, Connect, OpenSent, OpenConfirm, Established} x {valid, empty, '
        'malformed} body; sends: generated UPDATE requests (IPv4 + standard attributes, IPv6 unicast, VPNv4), route-refresh '
        'and bin_update requests on eBGP / iBGP sessions in 4- and 2-octet-AS mode, hold time 180 / 3 / 0, with [bgp] rib on / off and 0-2 earlier '
        'announcements on the same session whose prefixes the checked request may withdraw or re-announce, plus the enumerated grid session kind x '
        'LOCAL_PREF {absent,0,1,100,2^31,2^32-1} x MED x shape for the default-LOCAL_PREF rule. '
        'Non-trivial = request hits a state-changing or sending endpoint or uses wrong-but-well-formed credentials; '
        'distinct by (rule, method, credentials, state, body).')
ASSUMPTIONS = ['REST calls are atomic between reactor events (Flask test client, no thread pool)',
               'an HTTP error status (400/404/405/415/500) counts as "reports failure" as long as nothing was sent or changed']
EXHAUSTIVE = {'quick': False, 'thorough': False}   # the matrix part is complete, the send requests are sampled

PEER = '10.0.0.2'
SENDING = ('send/update', 'send/route-refresh', 'send/bin_update', 'json_to_bin', 'adj-rib-in', 'adj-rib-out')
STATES = ['IDLE-fresh', 'IDLE-stopped', 'CONNECT', 'OPENSENT', 'OPENCONFIRM', 'ESTABLISHED']
CREDS = {'none': None, 'wrong-user': ('root', 'admin'), 'wrong-password': ('admin', 'nimda'), 'empty-password': ('admin', ''),
         'password-prefix': ('admin', 'admi'), 'password-longer': ('admin', 'admin1'), 'password-case': ('admin', 'ADMIN'),
         'user-case': ('Admin', 'admin'), 'empty-user': ('', 'admin'), 'swapped': ('nimda', 'admin'),
         'wrong-user-empty-password': ('root', ''), 'both-empty': ('', ''), 'wrong-user-none': ('root', 'None'),
         'user-with-colon': ('admin:admin', ''),
         'right': ('admin', 'admin')}
# a second configured account, to see that the check really compares with the configuration
ALT_ACCOUNT = ('operator', 's3:cr et')
ALT_CREDS = {'none': None, 'default-account': ('admin', 'admin'), 'wrong-password': ('operator', 's3'), 'password-prefix': ('operator', 's3:cr e'),
             'password-up-to-blank': ('operator', 's3:cr'), 'wrong-user-empty-password': ('root', ''), 'right': ALT_ACCOUNT}


def rules():
    out = []
    for r in api_app.app.url_map.iter_rules():
        if r.rule.startswith('/v1/peer/'):
            path = r.rule.replace('<peer_ip>', PEER).replace('<action>', 'send')
            out.append((r.rule, path, sorted(m for m in r.methods)))
    return sorted(out)


def valid_body(rule):
    if rule.endswith('send/update') or rule.endswith('json_to_bin'):
        return {'attr': {'1': 0, '2': [[2, [65001]]], '3': '10.0.0.1'}, 'nlri': ['10.77.0.0/16']}
    if rule.endswith('send/route-refresh'):
        return {'afi': 1, 'safi': 1}
    if rule.endswith('send/bin_update'):
        return {'binary_data': ss.marked_update(3)[0].hex()}
    if rule.endswith('adj-rib-in') or rule.endswith('adj-rib-out'):
        return {'data': ['10.0.0.0/24']}
    return None


def make_state(name, ibgp=False, as4=True, rib=False, account=None, hold=180):
    kw = dict(hold_time=hold, idle_hold_time=30, rib=rib)
    if account:
        kw['username'], kw['password'] = account
    if as4 == 'local-off':
        # the local speaker is configured without the 4-octet-AS capability, the peer advertises it: 2-octet session
        kw['four_bytes_as'] = False
    if ibgp:
        kw['remote_as'] = 65001
    sim = Sim(**kw)
    if as4 is False:
        # the peer does not advertise the 4-octet-AS capability: the session runs in 2-octet mode
        ss.establish(sim, upto=name, caps=[rc.cap_mp(1, 1), rc.cap(2), rc.cap(128)], as4=False)
        return sim
    if name == 'IDLE-fresh':
        return sim
    if name == 'CONNECT':
        sim.boot()
        return sim
    if name == 'IDLE-stopped':
        ss.establish(sim)
        sim.manual_stop()
        sim.reactor.settle(fire_due=True)
        return sim
    ss.establish(sim, upto=name)
    return sim


def snapshot(sim):
    fsm = sim.fsm
    p = fsm.protocol
    wr = [(cid, payload) for _, k, cid, payload in sim.reactor.transcript if k in ('write', 'connectTCP', 'loseConnection')]
    timers = tuple((c.time, c.name) for c in sim.reactor.pending())
    prot = None
    if p is not None:
        prot = copy.deepcopy((p.msg_sent_stat, p.msg_recv_stat, p.send_version, p.receive_version, p.adj_rib_in, p.adj_rib_out,
                              p.flowspec_send_dict, p.mpls_vpn_send_dict, p.sr_send_dict, p.disconnected))
    return (fsm.state, fsm.allow_automatic_start, fsm.hold_time, timers, len(wr), wr[-3:], prot,
            [(c.id, c.state) for c in sim.reactor.connectors], len(sim.reactor._soon))


def matrix_case(state, rule, path, methods, method, cred, bodykind, alt=False):
    sim = make_state(state, account=ALT_ACCOUNT if alt else None)
    if sim.state != state.split('-')[0]:
        return [('harness:state', 'could not reach %s (got %s)' % (state, sim.state))], False
    before = snapshot(sim)
    kw = {}
    vb = valid_body(rule)
    if bodykind == 'valid' and vb is not None:
        kw['json_body'] = vb
    elif bodykind == 'empty':
        kw['json_body'] = {}
    elif bodykind == 'malformed':
        kw['raw_body'] = '{"attr": '
    code, body = sim.rest(method, path, auth=(ALT_CREDS if alt else CREDS)[cred], **kw)
    sim.reactor.settle(fire_due=True)
    after = snapshot(sim)
    out = []
    short = rule.split('<peer_ip>/')[1]
    accepted = method in methods
    sending = any(short.startswith(s) for s in SENDING)
    if cred != 'right':
        if code == 401 or (code == 405 and not accepted):
            pass
        elif method == 'OPTIONS' and code == 200 and not body:
            pass     # the framework's automatic OPTIONS reply: no body, and (checked below) no effect
        else:
            out.append(('auth:not-rejected:%s' % cred, '%s %s with %s credentials answered %s %r' % (method, path, cred, code, body)))
        if before != after:
            out.append(('auth:effect:%s' % cred, '%s %s with %s credentials changed the agent: %r -> %r' % (method, path, cred, before, after)))
        return out, True
    # right credentials
    if code == 401:
        out.append(('auth:valid-credentials-rejected:%s' % short, '%s %s with the configured credentials answered 401' % (method, path)))
    if sending and state != 'ESTABLISHED' and accepted:
        if code == 200 and isinstance(body, dict) and body.get('status') is not False:
            out.append(('gating:reply:%s:%s' % (short, state), '%s in %s answered %r' % (short, state, body)))
        if before != after:
            out.append(('gating:effect:%s:%s' % (short, state), '%s in %s changed the agent' % (short, state)))
    if not accepted and before != after:
        out.append(('method:effect:%s:%s' % (short, method), 'method not in the rule but the agent changed'))
    if code >= 400 and before != after and not short.startswith('manual'):
        out.append(('error-status:effect:%s:%s' % (short, code), 'HTTP %s but the agent changed' % code))
    return out, sending or short.startswith('manual')


# ------------------------------------------------------------------------------------------ faithful sends
def decode_frame(sim, mark, cid):
    frames = ss.frames_written(sim.since(mark))
    return frames


def expect_attrs(attr, ibgp):
    exp = {}
    for k, v in attr.items():
        code = int(k)
        if code == 2:
            v = [(s[0], list(s[1])) for s in v]
        elif code == 7:
            v = (v[0], v[1])
        elif code == 8:
            from vlib.props.c06 import community_value
            v = [community_value(t) for t in v]
        elif code == 32:
            v = [tuple(int(x) for x in t.split(':')) for t in v]
        elif code == 16:
            v = [rt_bytes(t) for t in v]
        exp[code] = v
    if ibgp and 5 not in exp and exp:
        exp[5] = 100
    return exp


def rt_bytes(text):
    import struct
    kind, a, b = text.split(':')
    sub = 2 if kind == 'route-target' else 3
    return struct.pack('!BBHI', 0, sub, int(a), int(b))


@st.composite
def send_request(draw):
    from vlib.props.c06 import as_path, community_in, prefix_list
    ibgp = draw(st.booleans())
    as4 = draw(st.sampled_from([True, True, False, 'local-off']))
    hold = draw(st.sampled_from([180, 180, 0, 3]))      # configured hold time of the session (0: no timers at all)
    shape = draw(st.sampled_from(['announce', 'announce', 'withdraw', 'both', 'v6', 'vpn4', 'rr', 'bin']))
    req = {}
    if shape == 'rr':
        req = {'afi': draw(st.sampled_from([1, 1, 2, 25, 65535])), 'safi': draw(st.sampled_from([1, 1, 4, 128, 70])),
               'res': draw(st.sampled_from([0, 0, 1, 255]))}
        if draw(st.booleans()):
            del req['res']
        return {'ibgp': ibgp, 'as4': as4, 'hold': hold, 'shape': shape, 'req': req}
    if shape == 'bin':
        n = draw(st.integers(1, 3))
        data = b''.join(ss.marked_update(draw(st.integers(0, 60000)))[0] for _ in range(n))
        return {'ibgp': ibgp, 'as4': as4, 'hold': hold, 'shape': shape, 'req': {'hex': data.hex()}}
    if shape in ('announce', 'both'):
        a = {'1': draw(st.integers(0, 2)), '2': draw(as_path(as4 is True)), '3': draw(vs.ipv4_host)}
        for c in draw(st.sets(st.sampled_from([4, 5, 6, 7, 8, 9, 10, 16, 32]), max_size=5)):
            if c in (4, 5):
                a[str(c)] = draw(st.one_of(st.sampled_from([0, 100]), vs.u32))
            elif c == 6:
                a['6'] = ''
            elif c == 7:
                a['7'] = [draw(vs.asn4 if as4 is True else vs.asn2), draw(vs.ipv4_addr)]
            elif c == 8:
                a['8'] = draw(st.lists(community_in, min_size=1, max_size=4))
            elif c == 9:
                a['9'] = draw(vs.ipv4_addr)
            elif c == 10:
                a['10'] = draw(st.lists(vs.ipv4_addr, min_size=1, max_size=3))
            elif c == 16:
                a['16'] = draw(st.lists(st.tuples(st.sampled_from(['route-target', 'route-origin']), vs.u16, vs.u32).map(
                    lambda t: '%s:%d:%d' % t), min_size=1, max_size=3))
            elif c == 32:
                a['32'] = draw(st.lists(st.tuples(vs.u32, vs.u32, vs.u32).map(lambda t: '%d:%d:%d' % t), min_size=1, max_size=3))
        req['attr'] = a
        req['nlri'] = draw(prefix_list)[:8]
    if shape in ('withdraw', 'both'):
        req['withdraw'] = draw(prefix_list)[:8]
    rib = draw(st.booleans())
    pre = []
    if shape in ('announce', 'withdraw', 'both') and draw(st.booleans()):
        # one or two earlier announcements; the request under test may withdraw / re-announce some of their prefixes
        for _ in range(draw(st.integers(1, 2))):
            pl = draw(prefix_list)[:4] or ['10.77.0.0/16']
            pre.append({'attr': {'1': 0, '2': [[2, [65001]]], '3': '10.0.0.1'}, 'nlri': pl})
        earlier = [p_ for r_ in pre for p_ in r_['nlri']]
        if 'withdraw' in req:
            mix = draw(st.lists(st.sampled_from(earlier), max_size=3))
            pos = draw(st.integers(0, len(req['withdraw'])))
            req['withdraw'] = (req['withdraw'][:pos] + mix + req['withdraw'][pos:])[:10]
        if 'nlri' in req and draw(st.booleans()):
            req['nlri'] = (draw(st.lists(st.sampled_from(earlier), max_size=2)) + req['nlri'])[:8]
    if shape == 'v6':
        req['attr'] = {'1': 0, '2': [[2, [65001]]], '14': {'afi_safi': [2, 1], 'nexthop': draw(vs.ipv6_global),
                                                           'nlri': draw(st.lists(vs.prefix6(), min_size=1, max_size=4))}}
    if shape == 'vpn4':
        req['attr'] = {'1': 0, '2': [[2, [65001]]], '14': {'afi_safi': [1, 128], 'nexthop': {'rd': '0:0', 'str': draw(vs.ipv4_host)},
                                                           'nlri': draw(st.lists(st.fixed_dictionaries({
                                                               'prefix': vs.prefix4(), 'rd': vs.rd_text(),
                                                               'label': st.lists(vs.label, min_size=1, max_size=1)}), min_size=1, max_size=3))}}
    if shape in ('v6', 'vpn4') and draw(st.booleans()):
        # one request that withdraws IPv4 routes and carries an MP_REACH attribute (no IPv4 NLRI): both go out
        req['withdraw'] = (draw(prefix_list)[:4] or ['10.66.0.0/16'])
    return {'ibgp': ibgp, 'as4': as4, 'hold': hold, 'rib': rib, 'pre': pre, 'shape': shape, 'req': req}


def other_send_case(case):
    """route-refresh and bin_update: a success reply means exactly that message is on the wire"""
    sim = make_state('ESTABLISHED', ibgp=case['ibgp'], as4=case.get('as4', True), hold=case.get('hold', 180))
    c = ss.live_connectors(sim)[-1]
    mark = sim.mark()
    out = []
    if case['shape'] == 'rr':
        req = case['req']
        code, body = sim.rest('POST', '/v1/peer/%s/send/route-refresh' % PEER, json_body=req)
    else:
        data = bytes.fromhex(case['req']['hex'])
        req = {'binary_data': case['req']['hex']}
        code, body = sim.rest('POST', '/v1/peer/%s/send/bin_update' % PEER, json_body=req)
    sim.reactor.settle(fire_due=True)
    wr = b''.join(p for _, k, cid, p in sim.since(mark) if k == 'write' and cid == c.id)
    other = [cid for _, k, cid, p in sim.since(mark) if k == 'write' and cid != c.id]
    ok = code == 200 and isinstance(body, dict) and body.get('status') is True
    if other:
        out.append(('send:wrong-connection', 'bytes written to connectors %r' % (other,)))
    if not ok:
        if wr:
            out.append(('send:failure-reported-but-sent:%s' % case['shape'], 'reply %s %r but %s written' % (code, body, wr.hex()[:80])))
        return out
    if case['shape'] == 'rr':
        want = [rc.route_refresh(req['afi'], req['safi'], req.get('res', 0), t) for t in (rc.ROUTE_REFRESH_CISCO, rc.ROUTE_REFRESH)]
        if wr not in want:
            out.append(('send:route-refresh:not-the-request', 'requested %r, on the wire %s' % (req, wr.hex())))
    else:
        if wr != data:
            out.append(('send:bin-update:not-the-request', 'requested %s, on the wire %s' % (data.hex()[:120], wr.hex()[:120])))
    return out


def send_case(case):
    if case['shape'] in ('rr', 'bin'):
        return other_send_case(case)
    ibgp, req = case['ibgp'], case['req']
    as4 = case.get('as4', True)
    sim = make_state('ESTABLISHED', ibgp=ibgp, as4=as4, rib=case.get('rib', False), hold=case.get('hold', 180))
    c = ss.live_connectors(sim)[-1]
    # earlier requests on the same session (they fill the agent's Adj-RIB-Out when [bgp] rib is on)
    for pre in case.get('pre') or []:
        sim.rest('POST', '/v1/peer/%s/send/update' % PEER, json_body=copy.deepcopy(pre))
        sim.reactor.settle(fire_due=True)
    mark = sim.mark()
    code, body = sim.rest('POST', '/v1/peer/%s/send/update' % PEER, json_body=copy.deepcopy(req))
    sim.reactor.settle(fire_due=True)
    out = []
    try:
        frames = ss.frames_written(sim.since(mark))
    except rc.WalkError as e:
        return [('send:unframed', str(e))]
    errs = sim.errors
    if errs:
        out.append(('send:escaped:%s@%s' % (errs[0][2], errs[0][3]), '%r' % (errs[0],)))
    ok = code == 200 and isinstance(body, dict) and body.get('status') is True
    if not ok:
        if frames:
            out.append(('send:failure-reported-but-sent', 'reply %s %r but %d frame(s) written' % (code, body, len(frames))))
        return out
    if len(frames) != 1 or frames[0][1] != rc.UPDATE or frames[0][0] != c.id:
        out.append(('send:frames=%d' % len(frames), 'status true but frames written: %r' % [(cid, t) for cid, t, _ in frames]))
        return out
    try:
        d = rc.decode_update(frames[0][2], asn4=(as4 is True))
    except rc.WalkError as e:
        return out + [('send:malformed-on-wire', str(e))]
    exp = expect_attrs(req.get('attr') or {}, ibgp)
    if sorted(d['nlri']) != sorted(req.get('nlri') or []) or d['nlri'] != (req.get('nlri') or []):
        out.append(('send:nlri', 'requested %r, on the wire %r' % (req.get('nlri'), d['nlri'])))
    if d['withdraw'] != (req.get('withdraw') or []):
        out.append(('send:withdraw', 'requested %r, on the wire %r' % (req.get('withdraw'), d['withdraw'])))
    if set(d['attr']) != set(exp):
        out.append(('send:attr-set:missing=%s,extra=%s' % (sorted(set(exp) - set(d['attr'])), sorted(set(d['attr']) - set(exp))),
                    'requested %r (+default LOCAL_PREF on iBGP), on the wire %r' % (sorted(exp), sorted(d['attr']))))
        return out
    for code_, v in exp.items():
        got = d['attr'][code_]
        if code_ == 14:
            v14 = req['attr']['14']
            if v14['afi_safi'] == [2, 1]:
                want_nlri = b''.join(rc.prefix6(p) for p in v14['nlri'])
                want_nh = rc.ip6(v14['nexthop'])
            else:
                want_nlri = b''.join(rc.vpn_route(r_['prefix'], rc.rd(r_['rd']), r_['label']) for r_ in v14['nlri'])
                want_nh = b'\x00' * 8 + rc.ip4(v14['nexthop']['str'])
            if (got['afi'], got['safi']) != tuple(v14['afi_safi']) or got['nexthop'] != want_nh or got['nlri'] != want_nlri:
                out.append(('send:mp-reach:%s' % case['shape'], 'MP_REACH on the wire %r, RFC encoding of the request nh=%s nlri=%s'
                            % ({k: (x.hex() if isinstance(x, bytes) else x) for k, x in got.items()}, want_nh.hex(), want_nlri.hex())))
            continue
        if code_ == 2:
            got = [(s[0], list(s[1])) for s in got]
        if code_ == 32:
            got = [tuple(x) for x in got]
        if got != v:
            out.append(('send:attr%d' % code_, 'attribute %d requested %r, on the wire %r' % (code_, v, got)))
    return out


def shards(tier):
    rs = rules()
    out = [{'name': 'matrix-%d' % i, 'kind': 'matrix', 'rules': [list(r) for r in rs[i::8]]} for i in range(8)]
    out.append({'name': 'send-grid', 'kind': 'sendgrid'})
    out += [{'name': 'sends-%d' % i, 'kind': 'sends', 'examples': 500 if tier == 'quick' else 30000, 'hypothesis': True}
            for i in range(8)]
    return out


def run_shard(spec, seed, col, tier):
    if spec['kind'] == 'matrix':
        for rule, path, methods in spec['rules']:
            for state in STATES:
                for method in ('GET', 'HEAD', 'POST', 'PUT', 'DELETE', 'PATCH', 'OPTIONS'):
                    for cred in CREDS:
                        for bodykind in (('valid', 'empty', 'malformed') if method in ('POST', 'PUT', 'PATCH') else ('none',)):
                            case = {'k': 'matrix', 'state': state, 'rule': rule, 'path': path, 'methods': methods,
                                    'method': method, 'cred': cred, 'body': bodykind}
                            res, nt = matrix_case(state, rule, path, methods, method, cred, bodykind)
                            col.case(case, nt or cred not in ('none', 'right'),
                                     labels=['matrix', 'cred:' + cred, 'state:' + state])
                            for sig, detail in res:
                                col.fail(sig, case, detail)
            # the same rule with another configured account
            for state in ('IDLE-fresh', 'ESTABLISHED'):
                for method in ('GET', 'POST'):
                    for cred in ALT_CREDS:
                        bodykind = 'valid' if method == 'POST' else 'none'
                        case = {'k': 'matrix', 'alt': True, 'state': state, 'rule': rule, 'path': path, 'methods': methods,
                                'method': method, 'cred': cred, 'body': bodykind}
                        res, nt = matrix_case(state, rule, path, methods, method, cred, bodykind, alt=True)
                        col.case(case, True, labels=['matrix-alt-account', 'cred:' + cred])
                        for sig, detail in res:
                            col.fail(sig, case, detail)
        return

    if spec['kind'] == 'sendgrid':
        # the default-LOCAL_PREF rule, enumerated: session kind x LOCAL_PREF x MED boundary values x shape
        absent = None
        for ibgp, as4, hold in ((False, True, 180), (True, True, 180), (True, False, 180), (False, False, 180), (True, True, 0),
                                (False, True, 0), (False, 'local-off', 180), (True, 'local-off', 180)):
            for lp in (absent, 0, 1, 100, 2 ** 31, 2 ** 32 - 1):
                for med in (absent, 0, 2 ** 32 - 1):
                    for shape in ('announce', 'both', 'withdraw'):
                        req = {}
                        if shape != 'withdraw':
                            a = {'1': 0, '2': [[2, [65001, 65002]]], '3': '10.0.0.1'}
                            if lp is not absent:
                                a['5'] = lp
                            if med is not absent:
                                a['4'] = med
                            req['attr'] = a
                            req['nlri'] = ['10.1.0.0/16', '10.2.3.0/24']
                        if shape != 'announce':
                            req['withdraw'] = ['10.9.0.0/16']
                        case = {'ibgp': ibgp, 'as4': as4, 'hold': hold, 'shape': shape, 'req': req}
                        res = send_case(case)
                        case = dict(case, k='send')
                        col.case(case, True, labels=['send-grid', 'ibgp:%s' % ibgp])
                        for sig, detail in res:
                            col.fail(sig, case, detail)
        return

    def body(case):
        res = send_case(case)
        case = dict(case, k='send')
        col.case(case, True, labels=['send', 'shape:' + case['shape'], 'ibgp:%s' % case['ibgp'], 'as4:%s' % case.get('as4', True), 'rib:%s' % case.get('rib', False), 'hold:%s' % case.get('hold', 180), 'earlier-requests:%d' % len(case.get('pre') or [])])
        for sig, detail in res:
            col.fail(sig, case, detail)
    hyp_run(col, send_request(), body, seed, spec['examples'])


def replay(case):
    if case.get('k') == 'matrix':
        return matrix_case(case['state'], case['rule'], case['path'], case['methods'], case['method'], case['cred'], case['body'],
                           alt=bool(case.get('alt')))[0]
    return send_case(case)
