"""C07 - multiprotocol NLRI round trip for every family that is both encoded and decoded.

One facet per family x direction; every value is embedded in a full UPDATE through
Update.construct / Update.parse.  Oracle: attribute 14/15 of the parse result equals the input
dict (addresses and MACs compared by value, tuple == list, int/str flowspec keys equal), nothing
else in the result, no error.
"""
import ipaddress

from hypothesis import strategies as st

from vlib import env
env.install()

from vlib import refcodec as rc  # noqa: E402
from vlib import strategies as vs  # noqa: E402
from vlib.runner import hyp_run  # noqa: E402
from vlib.util import exc_sig  # noqa: E402

from yabgp.message.update import Update  # noqa: E402

PROPERTY = 'C07'
RULE = ('per family x direction (IPv6 unicast +- link-local next hop / unreach; IPv4, IPv6 labeled unicast; VPNv4, '
        'VPNv6 reach / unreach; EVPN types 1-4 reach / unreach; IPv4 flowspec reach / unreach): 1..n routes with all '
        'prefix lengths, labels {0,1,3,15,16,2^20-1,...}, RD types 0/1/2 at field boundaries, ESI types 0..5, MAC/IP '
        'presence, flowspec components 1-8,10,11 with = < > <= >= on 1/2/4-octet values. Non-trivial = non-octet-'
        'aligned or extreme prefix length, non-type-0 RD, non-zero ESI type, >= 2 routes, or a label in {0, 2^20-1}; '
        'distinct by canonical JSON.')
ASSUMPTIONS = [
    'addresses, prefixes and MAC addresses are compared by value, not by spelling',
    'a withdrawn VPN route may come back with the withdraw marker label [524288] added',
    'flowspec operands are taken from the encoder\'s 1-, 2- and 4-octet classes (0..65535, 2^24..2^32-1); AND-terms, '
    'bitmask components 9/12 and 3-octet operands are outside "supported operators"',
    'EVPN label lists hold exactly the labels the route type defines (type 1: one; type 2: one or two)',
]
EXHAUSTIVE = {'quick': False, 'thorough': False}

WITHDRAW_LABEL = 524288


# ------------------------------------------------------------------------------------------ comparison
def _addr_key(s):
    """canonical key for anything that looks like an address / prefix / MAC, else None"""
    if not isinstance(s, str) or not s:
        return None
    try:
        if '/' in s:
            n = ipaddress.ip_interface(s)        # host bits are part of the value: an unmasked prefix differs
            return ('net', n.version, int(n.ip), n.network.prefixlen)
        a = ipaddress.ip_address(s)
        return ('addr', a.version, int(a))
    except ValueError:
        pass
    t = s.replace(':', '-')
    parts = t.split('-')
    if len(parts) == 6 and all(len(p) in (1, 2) for p in parts):
        try:
            return ('mac', tuple(int(p, 16) for p in parts))
        except ValueError:
            return None
    return None


def diff(exp, got, path=''):
    """None if equal under the documented equivalences, else a path describing the first difference."""
    if isinstance(exp, dict):
        if not isinstance(got, dict):
            return path + '<type>'
        ke = {str(k): k for k in exp}
        kg = {str(k): k for k in got}
        if set(ke) != set(kg):
            miss, extra = sorted(set(ke) - set(kg)), sorted(set(kg) - set(ke))
            # numeric keys (flowspec component numbers) or many keys: one root cause must not give one signature per code
            if all(k.isdigit() for k in miss + extra) or len(miss) + len(extra) > 2:
                miss, extra = (['#'] if miss else []), (['#'] if extra else [])
            return path + '<keys:missing=%s,extra=%s>' % (','.join(miss), ','.join(extra))
        for k in sorted(ke):
            d = diff(exp[ke[k]], got[kg[k]], '%s/%s' % (path, '#' if k.isdigit() else k))
            if d:
                return d
        return None
    if isinstance(exp, (list, tuple)):
        if not isinstance(got, (list, tuple)):
            return path + '<type>'
        if len(exp) != len(got):
            return path + '<len:%s>' % ('more' if len(got) > len(exp) else 'fewer')
        for a, b in zip(exp, got):
            d = diff(a, b, path + '[]')
            if d:
                return d
        return None
    if isinstance(exp, str):
        ka = _addr_key(exp)
        if ka is not None:
            kb = _addr_key(got)
            if ka == kb:
                return None
            if kb is not None and ka[0] == kb[0] and ka[0] in ('net', 'addr') and ka[1] != kb[1]:
                return path + '<address-family>'
            return path + '<value>'
    if isinstance(exp, bool) != isinstance(got, bool) or exp != got:
        return path + '<value>'
    return None


# ------------------------------------------------------------------------------------------ strategies
label_stack = st.one_of(st.lists(vs.label, min_size=1, max_size=1), st.lists(vs.label, min_size=2, max_size=3))
v4len = st.one_of(st.integers(0, 32), st.sampled_from([0, 1, 7, 8, 9, 17, 24, 25, 31, 32]))
v6len = st.one_of(st.integers(0, 128), st.sampled_from([0, 1, 7, 8, 9, 63, 64, 65, 120, 127, 128]))


def routes(elem, big=False):
    return st.one_of(st.lists(elem, min_size=1, max_size=1), st.lists(elem, min_size=2, max_size=5),
                     st.lists(elem, min_size=8, max_size=14) if big else st.lists(elem, min_size=2, max_size=3))


def lu_route(v6):
    return st.fixed_dictionaries({'prefix': vs.prefix6(v6len) if v6 else vs.prefix4(v4len), 'label': label_stack})


def vpn_route(v6, withdraw):
    d = {'rd': vs.rd_text(), 'prefix': vs.prefix6(v6len) if v6 else vs.prefix4(v4len)}
    if not withdraw:
        d['label'] = st.lists(vs.label, min_size=1, max_size=1)   # RFC 4364: one label per VPN route
    return st.fixed_dictionaries(d)


@st.composite
def esi(draw):
    t = draw(st.integers(0, 5))
    if t == 0:
        v = draw(st.one_of(st.sampled_from([0, 1, 255, 256, 2 ** 64, 2 ** 72 - 1]), st.integers(0, 2 ** 72 - 1)))
    elif t == 1:
        v = {'ce_mac_addr': draw(vs.mac_text()), 'ce_port_key': draw(vs.u16)}
    elif t == 2:
        v = {'rb_mac_addr': draw(vs.mac_text()), 'rb_priority': draw(vs.u16)}
    elif t == 3:
        v = {'sys_mac_addr': draw(vs.mac_text()),
             'ld_value': draw(st.one_of(st.sampled_from([0, 1, 255, 256, 65535, 65536, 2 ** 24 - 1]), st.integers(0, 2 ** 24 - 1)))}
    elif t == 4:
        v = {'router_id': draw(vs.u32), 'ld_value': draw(vs.u32)}
    else:
        v = {'as_num': draw(vs.u32), 'ld_value': draw(vs.u32)}
    return {'type': t, 'value': v}


evpn_ip = st.one_of(st.none(), vs.ipv4_addr, vs.ipv6_addr, vs.ipv6_global)


@st.composite
def evpn_route(draw):
    t = draw(st.integers(1, 4))
    if t == 1:
        v = {'rd': draw(vs.rd_text()), 'esi': draw(esi()), 'eth_tag_id': draw(vs.u32), 'label': [draw(vs.label)]}
    elif t == 2:
        v = {'rd': draw(vs.rd_text()), 'esi': draw(esi()), 'eth_tag_id': draw(vs.u32), 'mac': draw(vs.mac_text()),
             'label': draw(st.lists(vs.label, min_size=1, max_size=2))}
        ip = draw(evpn_ip)
        if ip is not None:
            v['ip'] = ip
    elif t == 3:
        v = {'rd': draw(vs.rd_text()), 'eth_tag_id': draw(vs.u32)}
        ip = draw(st.one_of(vs.ipv4_addr, vs.ipv6_addr, vs.ipv6_global))
        v['ip'] = ip
    else:
        v = {'rd': draw(vs.rd_text()), 'esi': draw(esi())}
        v['ip'] = draw(st.one_of(vs.ipv4_addr, vs.ipv6_addr, vs.ipv6_global))
    return {'type': t, 'value': v}


FS_OPS = ['=', '>', '<', '>=', '<=']
fs_value = st.one_of(st.sampled_from([0, 1, 6, 17, 80, 255, 256, 443, 65535, 2 ** 24, 2 ** 31, 2 ** 32 - 1]),
                     st.integers(0, 65535), st.integers(2 ** 24, 2 ** 32 - 1))
fs_small = st.one_of(st.sampled_from([0, 1, 6, 17, 255]), st.integers(0, 255))


def fs_terms(val, big=False):
    n = st.integers(1, 4) if not big else st.integers(40, 90)
    return n.flatmap(lambda k: st.lists(st.tuples(st.sampled_from(FS_OPS), val).map(lambda t: '%s%d' % t),
                                        min_size=k, max_size=k)).map('|'.join)


@st.composite
def fs_rule(draw):
    big = draw(st.integers(0, 9)) == 0
    comps = draw(st.sets(st.sampled_from([1, 2, 3, 4, 5, 6, 7, 8, 10, 11]), min_size=1, max_size=6))
    rule = {}
    for c in sorted(comps):
        if c in (1, 2):
            rule[str(c)] = draw(vs.prefix4(v4len))
        elif c in (3, 7, 8, 11):
            rule[str(c)] = draw(fs_terms(fs_small))
        else:
            rule[str(c)] = draw(fs_terms(fs_value, big=big))
            big = False
    return rule


def facet_strategy(name):
    g6 = vs.ipv6_global
    if name == 'v6u-reach':
        return st.fixed_dictionaries({'afi_safi': st.just([2, 1]), 'nexthop': st.one_of(g6, vs.ipv6_addr),
                                      'nlri': routes(vs.prefix6(v6len))},
                                     optional={'linklocal_nexthop': vs.ipv6_linklocal})
    if name == 'v6u-unreach':
        return st.fixed_dictionaries({'afi_safi': st.just([2, 1]), 'withdraw': routes(vs.prefix6(v6len))})
    if name == 'lu4-reach':
        return st.fixed_dictionaries({'afi_safi': st.just([1, 4]), 'nexthop': vs.ipv4_host, 'nlri': routes(lu_route(False))})
    if name == 'lu6-reach':
        return st.fixed_dictionaries({'afi_safi': st.just([2, 4]), 'nexthop': g6, 'nlri': routes(lu_route(True))})
    if name == 'vpn4-reach':
        return st.fixed_dictionaries({'afi_safi': st.just([1, 128]),
                                      'nexthop': st.fixed_dictionaries({'rd': st.just('0:0'), 'str': vs.ipv4_host}),
                                      'nlri': routes(vpn_route(False, False))})
    if name == 'vpn4-unreach':
        return st.fixed_dictionaries({'afi_safi': st.just([1, 128]), 'withdraw': routes(vpn_route(False, True))})
    if name == 'vpn6-reach':
        return st.fixed_dictionaries({'afi_safi': st.just([2, 128]),
                                      'nexthop': st.fixed_dictionaries({'rd': st.just('0:0'),
                                                                        'str': st.one_of(g6, st.just('::ffff:172.16.4.12'))}),
                                      'nlri': routes(vpn_route(True, False))})
    if name == 'vpn6-unreach':
        return st.fixed_dictionaries({'afi_safi': st.just([2, 128]), 'withdraw': routes(vpn_route(True, True))})
    if name == 'evpn-reach':
        return st.fixed_dictionaries({'afi_safi': st.just([25, 70]), 'nexthop': vs.ipv4_host, 'nlri': routes(evpn_route())})
    if name == 'evpn-unreach':
        return st.fixed_dictionaries({'afi_safi': st.just([25, 70]), 'withdraw': routes(evpn_route())})
    if name == 'fs-reach':
        return st.fixed_dictionaries({'afi_safi': st.just([1, 133]), 'nexthop': st.one_of(st.just(''), vs.ipv4_host),
                                      'nlri': routes(fs_rule())})
    if name == 'fs-unreach':
        return st.fixed_dictionaries({'afi_safi': st.just([1, 133]), 'withdraw': routes(fs_rule())})
    raise ValueError(name)


FACETS = ['v6u-reach', 'v6u-unreach', 'lu4-reach', 'lu6-reach', 'vpn4-reach', 'vpn4-unreach', 'vpn6-reach',
          'vpn6-unreach', 'evpn-reach', 'evpn-unreach', 'fs-reach', 'fs-unreach']


# ------------------------------------------------------------------------------------------ oracle
def to_construct(value):
    v = dict(value)
    v['afi_safi'] = tuple(v['afi_safi'])
    return v


def check_case(case):
    """Check the case; when a multi-route case fails, isolate the culprit route(s) so that the
    signature describes the root cause (one route's own features), not the combination."""
    res = check_one(case)
    if not res:
        return res
    key = 'nlri' if 'nlri' in case['value'] else 'withdraw'
    items = case['value'][key]
    if len(items) <= 1:
        return res
    singles = {}
    for r in items:
        sub = {'facet': case['facet'], 'value': dict(case['value'], **{key: [r]})}
        for sig, detail in check_one(sub):
            singles.setdefault(sig, detail)
    if singles:
        return sorted(singles.items())
    for a, b in zip(items, items[1:]):
        sub = {'facet': case['facet'], 'value': dict(case['value'], **{key: [a, b]})}
        r2 = check_one(sub)
        if r2:
            return [('pair:' + sig, detail) for sig, detail in r2]
    return [('combination:' + sig, detail) for sig, detail in res]


def check_one(case):
    facet, value = case['facet'], case['value']
    reach = 'nlri' in value
    code = 14 if reach else 15
    attr = {}
    if reach:
        attr[1] = 0
        attr[2] = [(2, [65001, 65002])]
        attr[5] = 100
    attr[code] = to_construct(value)
    try:
        raw = Update.construct({'attr': attr}, True)
    except Exception as e:
        return [('%s:construct-exception:%s:%s' % (facet, exc_sig(e), feature(case)), repr(e))]
    if not isinstance(raw, (bytes, bytearray)):
        return [('%s:construct-returns:%s' % (facet, type(raw).__name__), 'Update.construct returned %r' % (raw,))]
    try:       # the octets are a function of the value: the same object encodes to the same message again
        again = Update.construct({'attr': attr}, True)
    except Exception as e:
        again = repr(e)
    if again != raw:
        return [('%s:construct-not-repeatable' % facet, 'first %s, second %s' % (bytes(raw).hex()[:200], again.hex()[:200] if isinstance(again, (bytes, bytearray)) else again))]
    try:
        frames = rc.split_frames(raw)
        assert len(frames) == 1
    except (rc.WalkError, AssertionError) as e:
        return [('%s:construct-unframed' % facet, str(e))]
    try:
        got = Update.parse(None, frames[0][1], True)
    except Exception as e:
        return [('%s:parse-exception:%s' % (facet, exc_sig(e)), repr(e))]
    out = []
    if got.get('sub_error'):
        return [('%s:sub-error:%s:%s' % (facet, got['sub_error'], feature(case)),
                 'sub_error=%r decoding own encoding %s' % (got['sub_error'], frames[0][1].hex()[:300]))]
    ga = got.get('attr') or {}
    if got.get('nlri') or got.get('withdraw'):
        out.append(('%s:spurious-ipv4-routes' % facet, 'nlri=%r withdraw=%r' % (got.get('nlri'), got.get('withdraw'))))
    if set(ga) != set(attr):
        out.append(('%s:attr-keys' % facet, 'expected attributes %r got %r' % (sorted(attr), sorted(ga))))
        return out
    exp = expected(value)
    g = ga[code]
    if not reach and isinstance(g, dict) and facet.startswith('vpn'):
        g = dict(g)
        g['withdraw'] = [strip_withdraw_label(r, e) for r, e in zip(g.get('withdraw') or [], exp['withdraw'])] + \
            list((g.get('withdraw') or [])[len(exp['withdraw']):])
    d = diff(exp, g)
    if d:
        out.append(('%s:mismatch:%s:%s' % (facet, d, feature(case, d)), 'expected %r got %r' % (exp, g)))
    return out


def strip_withdraw_label(route, exp_route):
    if isinstance(route, dict) and 'label' in route and 'label' not in exp_route and route['label'] == [WITHDRAW_LABEL]:
        r = dict(route)
        del r['label']
        return r
    return route


def expected(value):
    return value


def _plen(p):
    return int(p.split('/')[1])


def feature(case, d=''):
    """small input-feature discriminator for the signature (root-cause hint, not the raw input)"""
    v = case['value']
    items = v.get('nlri') or v.get('withdraw') or []
    f = set()
    for r in items:
        if isinstance(r, str):
            pl = _plen(r)
            f.add('len0' if pl == 0 else ('unaligned' if pl % 8 else 'aligned'))
            a = ipaddress.ip_network(r, strict=False)
            if a.version == 6 and 0 < int(a.network_address) < 2 ** 32:
                f.add('v6<2^32')
        elif isinstance(r, dict) and 'prefix' in r:
            pl = _plen(r['prefix'])
            f.add('len0' if pl == 0 else ('unaligned' if pl % 8 else 'aligned'))
            if 0 in (r.get('label') or []):
                f.add('label0')
        elif isinstance(r, dict) and 'type' in r:
            val = r['value']
            if 'esi' in val:
                f.add('esi%d' % val['esi']['type'])
            ip = val.get('ip')
            if ip:
                f.add('ip6' if ':' in ip else 'ip4')
            if 0 in (val.get('label') or []):
                f.add('label0')
        elif isinstance(r, dict):
            for k, t in r.items():
                if k in ('1', '2') and _plen(t) == 0:
                    f.add('fs-len0')
                if k in ('1', '2') and _plen(t) % 8:
                    f.add('fs-unaligned')
            if sum(len(str(t)) for t in r.values()) > 300:
                f.add('fs-long')
    if len(items) > 1:
        f.add('multi')
    return ','.join(sorted(f)) or '-'


def nontrivial(case):
    v = case['value']
    items = v.get('nlri') or v.get('withdraw') or []
    if len(items) >= 2:
        return True
    for r in items:
        p = r if isinstance(r, str) else (r.get('prefix') if isinstance(r, dict) else None)
        if p:
            pl = _plen(p)
            if pl % 8 or pl in (0, 32, 128):
                return True
        if isinstance(r, dict):
            rd = r.get('rd') or (r.get('value') or {}).get('rd') if 'type' in r or 'rd' in r else None
            if rd and ('.' in rd or int(rd.split(':')[0]) > 65535):
                return True
            labs = r.get('label') or (r.get('value', {}).get('label') if 'type' in r else None) or []
            if any(x in (0, 2 ** 20 - 1) for x in labs):
                return True
            if 'type' in r and r['value'].get('esi', {}).get('type'):
                return True
            if 'type' not in r and 'prefix' not in r:
                return True   # flowspec rule
    return False


# ------------------------------------------------------------------------------------------ shards
def shards(tier):
    per = 1000 if tier == 'quick' else 25000
    out = []
    for f in FACETS:
        out.append({'name': f, 'kind': 'hyp', 'facet': f, 'examples': per, 'hypothesis': True})
    out.append({'name': 'prefix-grid', 'kind': 'grid'})
    return out


def run_shard(spec, seed, col, tier):
    if spec['kind'] == 'hyp':
        facet = spec['facet']

        def body(value):
            case = {'facet': facet, 'value': value}
            res = check_case(case)
            col.case(case, nontrivial(case), labels=['facet:' + facet] + ['feat:' + x for x in feature(case).split(',')])
            for sig, detail in res:
                col.fail(sig, case, detail)
        hyp_run(col, facet_strategy(facet), body, seed, spec['examples'])
    else:
        # exhaustive: family x every prefix length x label set x 2 base addresses (alone and doubled)
        labels = [0, 1, 3, 15, 16, 2 ** 20 - 1]
        for v6 in (False, True):
            maxlen = 128 if v6 else 32
            bases = [(0x20010DB8 << 96) | 0x1234567890ABCDEF0123, 2 ** 128 - 1] if v6 else [0x0A0B0C0D, 0xFFFFFFFF]
            for plen in range(maxlen + 1):
                for base in bases:
                    full = (2 ** maxlen - 1)
                    mask = (full << (maxlen - plen)) & full if plen else 0
                    addr = ipaddress.IPv6Address(base & mask) if v6 else ipaddress.IPv4Address(base & mask)
                    p = '%s/%d' % (addr, plen)
                    lab = labels[plen % len(labels)]
                    fam = '6' if v6 else '4'
                    cases = [
                        {'facet': 'lu%s-reach' % fam, 'value': {'afi_safi': [2 if v6 else 1, 4],
                                                               'nexthop': '2001:db8::1' if v6 else '10.0.0.1',
                                                               'nlri': [{'prefix': p, 'label': [lab]}]}},
                        {'facet': 'vpn%s-reach' % fam, 'value': {'afi_safi': [2 if v6 else 1, 128],
                                                                'nexthop': {'rd': '0:0', 'str': '2001:db8::1' if v6 else '10.0.0.1'},
                                                                'nlri': [{'prefix': p, 'rd': '100:1', 'label': [lab]},
                                                                         {'prefix': p, 'rd': '1.1.1.1:2', 'label': [16]}]}},
                        {'facet': 'vpn%s-unreach' % fam, 'value': {'afi_safi': [2 if v6 else 1, 128],
                                                                  'withdraw': [{'prefix': p, 'rd': '65536:1'}]}},
                    ]
                    if v6:
                        cases.append({'facet': 'v6u-reach', 'value': {'afi_safi': [2, 1], 'nexthop': '2001:db8::1',
                                                                      'nlri': [p, p]}})
                        cases.append({'facet': 'v6u-unreach', 'value': {'afi_safi': [2, 1], 'withdraw': [p]}})
                    for case in cases:
                        res = check_case(case)
                        col.case(case, True, labels=['grid'])
                        for sig, detail in res:
                            col.fail(sig, case, detail)


def replay(case):
    return check_case(case)
