"""C19 - Adj-RIB-In and the version counters track exactly the updates applied.

Rule-based history generation (Hypothesis) over a small pool of prefixes, attribute sets,
flowspec rules and VPNv4 routes: peer announce / withdraw / re-announce same / changed / mixed,
MP_REACH / MP_UNREACH, operator sends through POST send/update, session drop + re-establish.
Oracle: a dictionary model applied in order, compared after every step through the REST endpoints
and the protocol object.
"""
import itertools

from hypothesis import strategies as st

from vlib import refcodec as rc
from vlib import session as ss
from vlib.runner import hyp_run
from vlib.sim import Sim
from vlib.util import diff_path

PROPERTY = 'C19'
RULE = ('histories over 7 IPv4 prefixes (incl. /0, /32 and two whose length is not a multiple of 8, also sent with the bits beyond the '
        'length set), 3 attribute sets, 3 flowspec rules, 3 VPNv4 routes: peer '
        'announce/withdraw/re-announce (same, changed)/mixed, flowspec and VPNv4 reach/unreach, operator sends of the same '
        'shapes, one peer UPDATE carrying IPv4 withdrawals together with a flowspec / VPNv4 MP attribute, session drop (peer '
        'close, peer NOTIFICATION, header error, operator stop/start) and re-establishment, MP_REACH and MP_UNREACH of one '
        'family in one UPDATE / REST request, the same prefix twice in one UPDATE; plus all sequences of length <= 3 (4 in thorough) over a 2-prefix '
        '2-attribute alphabet. Non-trivial = history contains a withdraw of a present route or a re-announce with changed '
        'attributes; distinct by operation sequence.')
ASSUMPTIONS = ['rib=True; counters and tables are those of the current connection (a new session starts from zero)',
               'within one UPDATE withdrawals are applied before announcements']
EXHAUSTIVE = {'quick': False, 'thorough': False}
PEER = '10.0.0.2'
PREFIXES = ['0.0.0.0/0', '10.0.0.0/8', '10.1.0.0/16', '10.1.1.0/24', '10.1.1.1/32', '192.168.0.0/23', '172.16.0.0/12']
ATTRS = [
    {'origin': 0, 'path': [65002], 'nh': '10.0.0.2', 'med': None},
    {'origin': 2, 'path': [65002, 65003], 'nh': '10.0.0.2', 'med': 50},
    {'origin': 0, 'path': [65002], 'nh': '10.0.0.3', 'med': None},
    {'origin': 0, 'path': [65002], 'nh': '10.0.0.2', 'med': 50},                      # = set 0 plus MED
    {'origin': 0, 'path': [65002], 'nh': '10.0.0.2', 'med': 50, 'comm': [0xFFFFFF01]},  # = set 3 plus COMMUNITIES
]
FS_RULES = [
    [rc.fs_prefix4(1, '10.9.0.0/16')],
    [rc.fs_prefix4(1, '10.9.0.0/16'), rc.fs_component(3, rc.fs_numeric([(0, '=', 6)]))],
    [rc.fs_prefix4(2, '172.16.0.0/12'), rc.fs_component(5, rc.fs_numeric([(0, '=', 80), (0, '=', 443)]))],
    # component types with one and with two digits in one rule (as text, '10' sorts before '5')
    [rc.fs_prefix4(1, '10.9.0.0/16'), rc.fs_component(5, rc.fs_numeric([(0, '=', 80)])), rc.fs_component(10, rc.fs_numeric([(0, '=', 100)]))],
]
FS_JSON = [{'1': '10.9.0.0/16'}, {'1': '10.9.0.0/16', '3': '=6'}, {'2': '172.16.0.0/12', '5': '=80|=443'},
           {'1': '10.9.0.0/16', '5': '=80', '10': '=100'}]
VPN = [('100:1', '10.5.0.0/16'), ('100:2', '10.5.0.0/16'), ('1.1.1.1:7', '10.6.1.0/24')]


def enc_attrs(a, as4=True):
    out = rc.a_origin(a['origin']) + rc.a_as_path([(2, a['path'])], as4) + rc.a_next_hop(a['nh'])
    if a['med'] is not None:
        out += rc.a_med(a['med'])
    if a.get('comm'):
        out += rc.a_communities(a['comm'])
    return out


def dec_attrs(a):
    d = {1: a['origin'], 2: [(2, list(a['path']))], 3: a['nh']}
    if a['med'] is not None:
        d[4] = a['med']
    if a.get('comm'):
        d[8] = [rc.community_text(v) for v in a['comm']]
    return d


def rest_attrs(a):
    d = {'1': a['origin'], '2': [[2, list(a['path'])]], '3': a['nh']}
    if a['med'] is not None:
        d['4'] = a['med']
    if a.get('comm'):
        d['8'] = [rc.community_text(v) for v in a['comm']]
    return d


class Changes(object):
    """how many route changes an operation makes per family (a set-like 'add' that counts)"""

    def __init__(self):
        self.n = {}

    def add(self, fam):
        self.n[fam] = self.n.get(fam, 0) + 1

    def __contains__(self, fam):
        return self.n.get(fam, 0) > 0


class Run(object):
    def __init__(self, ibgp=False, as4=True):
        self.ibgp = ibgp
        self.as4 = as4         # False: the peer does not advertise the 4-octet-AS capability (AS numbers travel in 2 octets)
        kw = {'remote_as': 65001} if ibgp else {}
        self.sim = Sim(rib=True, hold_time=0, idle_hold_time=1, afi_safi=('ipv4', 'flowspec', 'vpnv4'), **kw)
        self.c = ss.establish(self.sim, caps=[rc.cap_mp(1, 1), rc.cap_mp(1, 133), rc.cap_mp(1, 128), rc.cap(2)], as4=as4)
        assert self.sim.state == 'ESTABLISHED', self.sim.state
        self.reset_model()
        self.nontrivial = False

    def reset_model(self):
        self.rib_in = {}
        self.rib_out = {}
        self.fs_in, self.fs_out, self.vpn_in, self.vpn_out = {}, {}, {}, {}
        self.ver = {'received': {'ipv4': 0, 'flowspec': 0, 'mpls_vpn': 0}, 'send': {'ipv4': 0, 'flowspec': 0, 'mpls_vpn': 0}}

    def versions(self, action):
        code, body = self.sim.rest('GET', '/v1/peer/%s/version/%s' % (PEER, action))
        return body.get('version') if code == 200 and body else None

    # one step -> list of failures
    def step(self, op):
        sim, r = self.sim, self.sim.reactor
        k = op[0]
        out = []
        before = {a: dict(self.versions(a) or {}) for a in ('received', 'send')}
        changed = {'received': Changes(), 'send': Changes()}
        nerr = len(sim.errors)
        if k == 'drop':
            how = op[1] if len(op) > 1 else 'close'
            if how == 'notif':
                r.peer_send(self.c, rc.notification(6, 4))          # the agent closes after the peer's NOTIFICATION
            elif how == 'marker':
                r.peer_send(self.c, b'\x00' * 19)                    # the agent closes after a header error
            elif how == 'stop':
                sim.manual_stop()                                    # the operator stops and restarts the peer
                r.settle(fire_due=True)
                sim.manual_start()
            else:
                r.peer_close(self.c)
            r.settle(fire_due=True)
            if ss.live_connectors(sim) and how != 'stop':
                r.peer_close(ss.live_connectors(sim)[-1])
                r.settle(fire_due=True)
            proto = self.c.protocol
            if any(proto.adj_rib_in.get(f) for f in proto.adj_rib_in):
                out.append(('rib-not-empty-after-drop', 'adj_rib_in after connectionLost: %r' % (proto.adj_rib_in,)))
            est = ss.cooperate(sim, r.now + 100, peer_hold=0, caps=None if self.as4 else [rc.cap_mp(1, 1), rc.cap(2)], as4=None if self.as4 else False)
            if est is None:
                return out + [('harness:not-reestablished', 'could not re-establish')]
            self.c = ss.live_connectors(sim)[-1]
            self.reset_model()
            if sim.fsm.protocol.adj_rib_in.get('ipv4'):
                out.append(('rib-not-empty-on-new-session', '%r' % (sim.fsm.protocol.adj_rib_in,)))
            return out
        if k in ('ann', 'wd', 'mixed'):
            ann = [PREFIXES[i] for i in (op[1] if k != 'wd' else [])]
            wd = [PREFIXES[i] for i in (op[1] if k == 'wd' else (op[3] if k == 'mixed' else []))]
            a = ATTRS[op[2]] if k != 'wd' else None
            side = op[-1]     # 'peer' | 'rest'
            table = self.rib_in if side == 'peer' else self.rib_out
            act = 'received' if side == 'peer' else 'send'
            for p in wd:
                if p in table:
                    del table[p]
                    changed[act].add('ipv4')
                    self.nontrivial = True
            for p in ann:
                new = dec_attrs(a)
                if side == 'rest':
                    new = {int(kk): vv for kk, vv in rest_attrs(a).items()}
                    if self.ibgp and 5 not in new:
                        new[5] = 100          # the documented default LOCAL_PREF of the REST API on iBGP sessions
                if p in table and table[p] != new:
                    self.nontrivial = True
                if table.get(p) != new:
                    changed[act].add('ipv4')
                table[p] = new
            if side == 'peer':
                # 'dirty': the bits beyond the prefix length are set on the wire (RFC 4271: irrelevant) - same routes
                tb = 0xFF if (len(op) > 1 and op[-2] == 'dirty') else 0
                msg = rc.update(withdrawn=b''.join(rc.prefix4(p, trailing=tb) for p in wd), attrs=enc_attrs(a, self.as4) if a else b'',
                                nlri=b''.join(rc.prefix4(p, trailing=tb) for p in ann))
                r.peer_send(self.c, msg)
            else:
                req = {}
                if ann:
                    req['attr'] = rest_attrs(a)
                    req['nlri'] = ann
                if wd:
                    req['withdraw'] = wd
                code, body = sim.rest('POST', '/v1/peer/%s/send/update' % PEER, json_body=req)
                if code != 200 or not body or body.get('status') is not True:
                    out.append(('send-rejected:%s' % k, '%r -> %s %r' % (req, code, body)))
        elif k == 'ann-big-as':
            # ['ann-big-as', prefix idxs, variant]: a REST announcement whose AS_PATH holds an AS number above 65535.  On a
            # 2-octet-AS session the agent may refuse to build it; whatever it does, the sent counter moves exactly when the
            # Adj-RIB-Out it reports has changed (model-free: the table is read before and after)
            ann = [PREFIXES[i] for i in op[1]]
            path = [[65001, 70000], [70000], [65001, 4200000000]][op[2] % 3]
            code0, b0 = sim.rest('POST', '/v1/peer/%s/adj-rib-out' % PEER, json_body={'data': PREFIXES})
            req = {'attr': {'1': 0, '2': [[2, path]], '3': '10.0.0.1'}, 'nlri': ann}
            sim.rest('POST', '/v1/peer/%s/send/update' % PEER, json_body=req)
            r.settle(fire_due=True)
            code1, b1 = sim.rest('POST', '/v1/peer/%s/adj-rib-out' % PEER, json_body={'data': PREFIXES})
            if code0 == 200 and code1 == 200 and b0 and b1:
                for p in PREFIXES:
                    g0, g1 = b0['data'].get(p), b1['data'].get(p)
                    if g0 != g1:
                        changed['send'].add('ipv4')
                    if g1:
                        self.rib_out[p] = {int(kk): vv for kk, vv in g1.items()}
                    else:
                        self.rib_out.pop(p, None)
            self.nontrivial = True
        elif k == 'mp-both':
            # one UPDATE / one REST request with MP_REACH and MP_UNREACH of the same family: announce one entry, withdraw
            # another.  ['mp-both', 'fs'|'vpn', announce idx, withdraw idx, label, side]
            self.nontrivial = True
            famk, ai, wi, lab, side = op[1], op[2], op[3], op[4], op[5]
            act = 'received' if side == 'peer' else 'send'
            fam = 'flowspec' if famk == 'fs' else 'mpls_vpn'
            table = {('fs', 'peer'): self.fs_in, ('fs', 'rest'): self.fs_out, ('vpn', 'peer'): self.vpn_in,
                     ('vpn', 'rest'): self.vpn_out}[(famk, side)]
            # (the agent handles the MP_REACH part first, then the MP_UNREACH part)
            # what the agent keeps per entry is the attribute set of the UPDATE that announced it, and the MP_UNREACH of the
            # same message belongs to that set: a later announcement without it counts as changed attributes
            val = (lab, 'unreach-%d' % wi) if famk == 'vpn' else ('attrs0', 'unreach-%d' % wi)
            if table.get(ai) != val:
                changed[act].add(fam)
            table[ai] = val
            if wi in table:
                del table[wi]
                changed[act].add(fam)
            base = rc.a_origin(0) + rc.a_as_path([(2, [65002])], self.as4)
            if side == 'peer':
                if famk == 'fs':
                    at = base + rc.a_mp_reach(1, 133, b'', rc.fs_rule(FS_RULES[ai])) + rc.a_mp_unreach(1, 133, rc.fs_rule(FS_RULES[wi]))
                else:
                    at = base + rc.a_mp_reach(1, 128, b'\x00' * 8 + rc.ip4('10.0.0.2'), rc.vpn_route(VPN[ai][1], rc.rd(VPN[ai][0]), [lab])) + \
                        rc.a_mp_unreach(1, 128, rc.vpn_route(VPN[wi][1], rc.rd(VPN[wi][0]), [], raw_label=rc.WITHDRAW_LABEL))
                r.peer_send(self.c, rc.update(attrs=at))
            else:
                if famk == 'fs':
                    req = {'attr': {'1': 0, '2': [[2, [65001]]], '14': {'afi_safi': [1, 133], 'nexthop': '', 'nlri': [FS_JSON[ai]]},
                                    '15': {'afi_safi': [1, 133], 'withdraw': [FS_JSON[wi]]}}}
                else:
                    req = {'attr': {'1': 0, '2': [[2, [65001]]],
                                    '14': {'afi_safi': [1, 128], 'nexthop': {'rd': '0:0', 'str': '10.0.0.1'},
                                           'nlri': [{'rd': VPN[ai][0], 'prefix': VPN[ai][1], 'label': [lab]}]},
                                    '15': {'afi_safi': [1, 128], 'withdraw': [{'rd': VPN[wi][0], 'prefix': VPN[wi][1]}]}}}
                code, body = sim.rest('POST', '/v1/peer/%s/send/update' % PEER, json_body=req)
                if code != 200 or not body or body.get('status') is not True:
                    out.append(('send-rejected:%s' % k, '%r -> %s %r' % (req, code, body)))
        elif k == 'xfam':
            # one UPDATE from the peer carrying IPv4 withdrawn routes AND an MP attribute of another family (RFC 4760
            # allows it): both parts are applied.  ['xfam', [ipv4 idx...], mp-kind, idx, label]
            self.nontrivial = True
            for p in [PREFIXES[i] for i in op[1]]:
                if p in self.rib_in:
                    del self.rib_in[p]
                    changed['received'].add('ipv4')
            mk, idx, lab = op[2], op[3], op[4]
            fam = 'flowspec' if mk.startswith('fs') else 'mpls_vpn'
            table = self.fs_in if mk.startswith('fs') else self.vpn_in
            if mk.endswith('ann'):
                val = (lab,) if mk == 'vpn-ann' else ('attrs0',)
                if table.get(idx) != val:
                    changed['received'].add(fam)
                table[idx] = val
            elif idx in table:
                del table[idx]
                changed['received'].add(fam)
            base = rc.a_origin(0) + rc.a_as_path([(2, [65002])], self.as4)
            if mk == 'fs-ann':
                at = base + rc.a_mp_reach(1, 133, b'', rc.fs_rule(FS_RULES[idx]))
            elif mk == 'fs-wd':
                at = rc.a_mp_unreach(1, 133, rc.fs_rule(FS_RULES[idx]))
            elif mk == 'vpn-ann':
                at = base + rc.a_mp_reach(1, 128, b'\x00' * 8 + rc.ip4('10.0.0.2'), rc.vpn_route(VPN[idx][1], rc.rd(VPN[idx][0]), [lab]))
            else:
                at = rc.a_mp_unreach(1, 128, rc.vpn_route(VPN[idx][1], rc.rd(VPN[idx][0]), [], raw_label=rc.WITHDRAW_LABEL))
            r.peer_send(self.c, rc.update(withdrawn=b''.join(rc.prefix4(PREFIXES[i]) for i in op[1]), attrs=at))
        elif k == 'vpn-wd2':
            # the peer withdraws two VPNv4 routes in one MP_UNREACH_NLRI (one of them is often not in the table)
            for idx in (op[1], op[2]):
                if idx in self.vpn_in:
                    del self.vpn_in[idx]
                    changed['received'].add('mpls_vpn')
                    self.nontrivial = True
            nl = b''.join(rc.vpn_route(VPN[i][1], rc.rd(VPN[i][0]), [], raw_label=rc.WITHDRAW_LABEL) for i in (op[1], op[2]))
            r.peer_send(self.c, rc.update(attrs=rc.a_mp_unreach(1, 128, nl)))
        elif k in ('vpn-ann2', 'fs-ann2'):
            side = op[-1]
            act = 'received' if side == 'peer' else 'send'
            base = rc.a_origin(0) + rc.a_as_path([(2, [65002])], self.as4)
            if k == 'vpn-ann2':
                items = [(op[1], op[2]), (op[3], op[4])]
                table = self.vpn_in if side == 'peer' else self.vpn_out
                for idx, lab in items:
                    if idx in table and table[idx] != (lab,):
                        self.nontrivial = True
                    if table.get(idx) != (lab,):
                        changed[act].add('mpls_vpn')
                    table[idx] = (lab,)
                if side == 'peer':
                    nl = b''.join(rc.vpn_route(VPN[i][1], rc.rd(VPN[i][0]), [lab]) for i, lab in items)
                    r.peer_send(self.c, rc.update(attrs=base + rc.a_mp_reach(1, 128, b'\x00' * 8 + rc.ip4('10.0.0.2'), nl)))
                else:
                    req = {'attr': {'1': 0, '2': [[2, [65001]]], '14': {'afi_safi': [1, 128], 'nexthop': {'rd': '0:0', 'str': '10.0.0.1'},
                                                                        'nlri': [{'rd': VPN[i][0], 'prefix': VPN[i][1], 'label': [lab]} for i, lab in items]}}}
                    code, body = sim.rest('POST', '/v1/peer/%s/send/update' % PEER, json_body=req)
                    if code != 200 or not body or body.get('status') is not True:
                        out.append(('send-rejected:%s' % k, '%r -> %s %r' % (req, code, body)))
            else:
                items = [op[1], op[2]]
                table = self.fs_in if side == 'peer' else self.fs_out
                for idx in items:
                    if table.get(idx) != ('attrs0',):
                        changed[act].add('flowspec')
                    table[idx] = ('attrs0',)
                if side == 'peer':
                    nl = b''.join(rc.fs_rule(FS_RULES[i]) for i in items)
                    r.peer_send(self.c, rc.update(attrs=base + rc.a_mp_reach(1, 133, b'', nl)))
                else:
                    req = {'attr': {'1': 0, '2': [[2, [65001]]], '14': {'afi_safi': [1, 133], 'nexthop': '', 'nlri': [FS_JSON[i] for i in items]}}}
                    code, body = sim.rest('POST', '/v1/peer/%s/send/update' % PEER, json_body=req)
                    if code != 200 or not body or body.get('status') is not True:
                        out.append(('send-rejected:%s' % k, '%r -> %s %r' % (req, code, body)))
        elif k in ('fs-ann', 'fs-wd', 'vpn-ann', 'vpn-wd'):
            side = op[-1]
            act = 'received' if side == 'peer' else 'send'
            fam = 'flowspec' if k.startswith('fs') else 'mpls_vpn'
            table = {('fs', 'peer'): self.fs_in, ('fs', 'rest'): self.fs_out, ('vpn', 'peer'): self.vpn_in,
                     ('vpn', 'rest'): self.vpn_out}[(k.split('-')[0], side)]
            idx = op[1]
            if k.endswith('ann'):
                val = (op[2],) if k == 'vpn-ann' else ('attrs0',)
                if idx in table and table[idx] != val:
                    self.nontrivial = True
                if table.get(idx) != val:
                    changed[act].add(fam)
                table[idx] = val
            else:
                if idx in table:
                    del table[idx]
                    changed[act].add(fam)
                    self.nontrivial = True
            base = rc.a_origin(0) + rc.a_as_path([(2, [65002])], self.as4)
            if side == 'peer':
                if k == 'fs-ann':
                    msg = rc.update(attrs=base + rc.a_mp_reach(1, 133, b'', rc.fs_rule(FS_RULES[idx])))
                elif k == 'fs-wd':
                    msg = rc.update(attrs=rc.a_mp_unreach(1, 133, rc.fs_rule(FS_RULES[idx])))
                elif k == 'vpn-ann':
                    rd_, p = VPN[idx]
                    msg = rc.update(attrs=base + rc.a_mp_reach(1, 128, b'\x00' * 8 + rc.ip4('10.0.0.2'), rc.vpn_route(p, rc.rd(rd_), [op[2]])))
                else:
                    rd_, p = VPN[idx]
                    msg = rc.update(attrs=rc.a_mp_unreach(1, 128, rc.vpn_route(p, rc.rd(rd_), [], raw_label=rc.WITHDRAW_LABEL)))
                r.peer_send(self.c, msg)
            else:
                if k == 'fs-ann':
                    req = {'attr': {'1': 0, '2': [[2, [65001]]], '14': {'afi_safi': [1, 133], 'nexthop': '', 'nlri': [FS_JSON[idx]]}}}
                elif k == 'fs-wd':
                    req = {'attr': {'15': {'afi_safi': [1, 133], 'withdraw': [FS_JSON[idx]]}}}
                elif k == 'vpn-ann':
                    rd_, p = VPN[idx]
                    req = {'attr': {'1': 0, '2': [[2, [65001]]], '14': {'afi_safi': [1, 128], 'nexthop': {'rd': '0:0', 'str': '10.0.0.1'},
                                                                        'nlri': [{'rd': rd_, 'prefix': p, 'label': [op[2]]}]}}}
                else:
                    rd_, p = VPN[idx]
                    req = {'attr': {'15': {'afi_safi': [1, 128], 'withdraw': [{'rd': rd_, 'prefix': p}]}}}
                code, body = sim.rest('POST', '/v1/peer/%s/send/update' % PEER, json_body=req)
                if code != 200 or not body or body.get('status') is not True:
                    out.append(('send-rejected:%s' % k, '%r -> %s %r' % (req, code, body)))
        r.settle(fire_due=True)
        for e in sim.errors[nerr:]:
            out.append(('escaped:%s@%s' % (e[2], e[3]), '%r' % (e,)))
        if sim.state != 'ESTABLISHED':
            return out + [('session-lost:%s' % k, 'state %s after %r' % (sim.state, op))]
        # ---- tables
        proto = sim.fsm.protocol
        dp = diff_path(self.rib_in, proto.adj_rib_in.get('ipv4'))
        if dp:
            out.append(('adj-rib-in:%s' % _strip(dp), 'after %r: model %r, agent %r' % (op, self.rib_in, proto.adj_rib_in.get('ipv4'))))
        code, body = sim.rest('POST', '/v1/peer/%s/adj-rib-in' % PEER, json_body={'data': PREFIXES})
        if code != 200 or not body or body.get('status') is not True:
            out.append(('adj-rib-in-endpoint:%s' % code, '%r' % (body,)))
        else:
            for p in PREFIXES:
                got = body['data'].get(p)
                if p in self.rib_in:
                    if not got or got.get('prefix') != p:
                        out.append(('adj-rib-in-endpoint:present-route-missing:%s' % ('/0' if p.endswith('/0') else 'other'),
                                    'query %s -> %r, model has it' % (p, got)))
                        break
                elif got and got.get('prefix') == p:
                    out.append(('adj-rib-in-endpoint:absent-route-returned', 'query %s -> %r, model does not have it' % (p, got)))
                    break
        code, body = sim.rest('POST', '/v1/peer/%s/adj-rib-out' % PEER, json_body={'data': PREFIXES})
        if code == 200 and body and body.get('status') is True:
            for p in PREFIXES:
                got = body['data'].get(p)
                want = self.rib_out.get(p)
                if (got is None) != (want is None) or (want is not None and diff_path({str(k_): v for k_, v in want.items()}, got)):
                    out.append(('adj-rib-out', 'query %s -> %r, model %r' % (p, got, want)))
                    break
        else:
            out.append(('adj-rib-out-endpoint:%s' % code, '%r' % (body,)))
        # ---- versions
        for act in ('received', 'send'):
            after = self.versions(act)
            if after is None:
                out.append(('version-endpoint:%s' % act, 'no answer'))
                continue
            for fam in ('ipv4', 'flowspec', 'mpls_vpn'):
                b, a_ = before[act].get(fam, 0), after.get(fam, 0)
                if a_ < b:
                    out.append(('version:%s:%s:decreased' % (act, fam), '%s -> %s after %r' % (b, a_, op)))
                elif (a_ > b) != (fam in changed[act]):
                    out.append(('version:%s:%s:%s:%s' % (act, fam, 'missed' if fam in changed[act] else 'spurious', k),
                                '%s %s version %s -> %s after %r, table changed: %s' % (act, fam, b, a_, op, fam in changed[act])))
                elif a_ - b > changed[act].n.get(fam, 0):
                    # every increase belongs to a change: more increases than routes changed means some happened "otherwise"
                    out.append(('version:%s:%s:more-increases-than-changes:%s' % (act, fam, k),
                                '%s %s version %s -> %s after %r, but only %d route change(s)'
                                % (act, fam, b, a_, op, changed[act].n.get(fam, 0))))
        return out


def _strip(dp):
    import re
    dp = re.sub(r'/\d+\.\d+\.\d+\.\d+/\d+', '/<prefix>', dp)
    # key sets: keep which side has extra routes, not which routes
    m = re.search(r'missing=([^,>]*(?:,[^=>]*?)*),extra=([^>]*)', dp)
    if m:
        dp = dp[:m.start()] + 'missing=%s,extra=%s' % ('some' if m.group(1) else 'none', 'some' if m.group(2) else 'none') + dp[m.end():]
    return dp


def run_ops(ops):
    # a leading ['cfg', 'ibgp'] selects an iBGP session (the REST API then adds the default LOCAL_PREF)
    # a leading ['cfg', 'seg', n]: every peer message arrives in n TCP segments
    ops = [list(o) for o in ops]
    ncfg = 0
    while ncfg < len(ops) and ops[ncfg][0] == 'cfg':
        ncfg += 1
    ibgp = ['cfg', 'ibgp'] in ops[:ncfg]
    # a leading ['cfg', 'as2']: the peer does not advertise the 4-octet-AS capability
    run = Run(ibgp=ibgp, as4=['cfg', 'as2'] not in ops[:ncfg])
    for o in ops[:ncfg]:
        if o[1] == 'seg':
            run.sim.reactor.segments = o[2]
    for op in ops[ncfg:]:
        res = run.step(list(op))
        if res:
            return run, [f for f in res if not f[0].startswith('harness:')]
    return run, []


side = st.sampled_from(['peer', 'peer', 'rest'])
idxs = st.lists(st.integers(0, len(PREFIXES) - 1), min_size=1, max_size=3, unique=True)
op_strategy = st.one_of(
    st.tuples(st.just('ann'), idxs, st.integers(0, 4), side).map(list),
    st.tuples(st.just('wd'), idxs, side).map(list),
    st.tuples(st.just('ann-big-as'), idxs, st.integers(0, 2)).map(list),
    st.tuples(st.just('wd'), idxs).map(lambda t: ['wd', t[1], 'dirty', 'peer']),
    st.tuples(st.just('ann'), idxs, st.integers(0, 4)).map(lambda t: ['ann', t[1], t[2], 'dirty', 'peer']),
    # the same prefix listed twice in one UPDATE's withdrawn routes / NLRI
    st.tuples(st.just('wd'), st.integers(0, len(PREFIXES) - 1), side).map(lambda t: ['wd', [t[1], t[1]], t[2]]),
    st.tuples(st.just('ann'), st.integers(0, len(PREFIXES) - 1), st.integers(0, 4), side).map(lambda t: ['ann', [t[1], t[1]], t[2], t[3]]),
    st.tuples(st.just('mixed'), idxs, st.integers(0, 4), idxs, side).map(
        lambda t: ['mixed', t[1], t[2], [i for i in t[3] if i not in t[1]] or [(t[1][0] + 1) % len(PREFIXES)], t[4]]),
    st.tuples(st.just('fs-ann'), st.integers(0, 3), side).map(list),
    st.tuples(st.just('fs-wd'), st.integers(0, 3), side).map(list),
    st.tuples(st.just('vpn-ann'), st.integers(0, 2), st.sampled_from([16, 17]), side).map(list),
    st.tuples(st.just('vpn-wd'), st.integers(0, 2), side).map(list),
    st.tuples(st.just('vpn-ann2'), st.integers(0, 2), st.sampled_from([16, 17]), st.integers(0, 2), st.sampled_from([16, 17]), side).map(
        lambda t: ['vpn-ann2', t[1], t[2], (t[3] if t[3] != t[1] else (t[1] + 1) % 3), t[4], t[5]]),
    st.tuples(st.just('vpn-wd2'), st.integers(0, 2), st.integers(0, 2)).map(
        lambda t: ['vpn-wd2', t[1], (t[2] if t[2] != t[1] else (t[1] + 1) % 3)]),
    st.tuples(st.just('fs-ann2'), st.integers(0, 3), st.integers(0, 3), side).map(
        lambda t: ['fs-ann2', t[1], (t[2] if t[2] != t[1] else (t[1] + 1) % 4), t[3]]),
    st.tuples(st.just('xfam'), idxs, st.sampled_from(['fs-ann', 'fs-wd', 'vpn-ann', 'vpn-wd']), st.integers(0, 2),
              st.sampled_from([16, 17])).map(list),
    st.tuples(st.just('mp-both'), st.sampled_from(['fs', 'vpn']), st.integers(0, 2), st.integers(0, 2), st.sampled_from([16, 17]), side).map(
        lambda t: ['mp-both', t[1], t[2], (t[3] if t[3] != t[2] else (t[2] + 1) % 3), t[4], t[5]]),
    st.sampled_from([['drop'], ['drop', 'notif'], ['drop', 'marker'], ['drop', 'stop']]),
)


def shards(tier):
    out = [{'name': 'histories-%d' % i, 'kind': 'hyp', 'examples': 150 if tier == 'quick' else 6000, 'hypothesis': True,
            'steps': 25 if tier == 'quick' else 50} for i in range(8 if tier == 'quick' else 16)]
    out += [{'name': 'exhaustive-%d' % i, 'kind': 'exh', 'part': i, 'parts': 8, 'len': 3 if tier == 'quick' else 4} for i in range(8)]
    return out


def run_shard(spec, seed, col, tier):
    if spec['kind'] == 'exh':
        alpha = [['ann', [1], 0, 'peer'], ['ann', [1], 1, 'peer'], ['ann', [1], 3, 'peer'], ['ann', [1], 4, 'rest'], ['ann', [1], 3, 'rest'], ['ann', [2], 0, 'peer'], ['ann', [1, 2], 1, 'peer'],
                 ['wd', [1], 'peer'], ['wd', [2], 'peer'], ['wd', [1, 1], 'peer'], ['wd', [5], 'dirty', 'peer'], ['ann', [5], 0, 'peer'],
                 ['ann', [5], 0, 'dirty', 'peer'], ['mixed', [1], 0, [2], 'peer'], ['ann', [1], 0, 'rest'], ['wd', [1], 'rest'],
                 ['drop'], ['drop', 'notif'], ['vpn-ann2', 0, 16, 1, 17, 'peer'], ['vpn-ann', 0, 16, 'peer'], ['vpn-ann', 0, 17, 'peer'], ['vpn-wd', 0, 'peer'],
                 ['fs-ann2', 0, 1, 'peer'], ['fs-wd', 0, 'peer'], ['xfam', [1], 'fs-wd', 0, 16], ['xfam', [2], 'vpn-ann', 0, 17],
                 ['vpn-ann', 1, 16, 'rest'], ['mp-both', 'vpn', 0, 1, 16, 'rest'], ['fs-ann', 1, 'rest'], ['mp-both', 'fs', 0, 1, 16, 'rest'],
                 ['mp-both', 'vpn', 0, 1, 16, 'peer'], ['fs-ann', 3, 'rest'], ['fs-wd', 3, 'rest'],
                 # (the same flowspec rule announced alone and together with a withdrawal: other attributes for the same rule)
                 ['fs-ann', 0, 'peer'], ['mp-both', 'fs', 0, 1, 16, 'peer'],
                 # (two VPNv4 routes withdrawn in one message, the first one absent when only route 0 was announced)
                 ['vpn-wd2', 2, 0]]
        seqs = list(itertools.product(range(len(alpha)), repeat=spec['len']))[spec['part']::spec['parts']]
        for s in seqs:
            ops = [alpha[i] for i in s]
            run, res = run_ops(ops)
            col.case({'ops': ops}, run.nontrivial, labels=['exhaustive'])
            for sig, detail in res:
                col.fail(sig, {'ops': ops}, detail)
        return

    def body(ops):
        run, res = run_ops(ops)
        col.case({'ops': ops}, run.nontrivial, labels=['history', 'len-%d' % (len(ops) // 10 * 10)])
        for sig, detail in res:
            col.fail(sig, {'ops': ops}, detail)
    hyp_run(col, st.tuples(st.sampled_from([[], [], [['cfg', 'ibgp']], [['cfg', 'seg', 3]], [['cfg', 'ibgp'], ['cfg', 'seg', 2]], [['cfg', 'as2']], [['cfg', 'as2'], ['cfg', 'ibgp']]]), st.lists(op_strategy, min_size=3, max_size=spec['steps'])).map(
        lambda t: t[0] + t[1]), body, seed, spec['examples'])


def replay(case):
    return run_ops(case['ops'])[1]
