"""C12 - at most one TCP connection or connection attempt to the peer at any time.

Alphabet of C01 without the single-connection restriction: time may pass while an attempt is
pending, the peer may answer any pending attempt at any later moment, manual stop/start anywhere,
every order of same-instant due calls; connect-retry times below / equal to / above the 30 s TCP
connect timeout.  Oracle: invariants over the simulated connectors after every event, a snapshot
taken at each connectTCP call, a stale-write probe, and a quiescence audit.
"""
import itertools

from hypothesis import strategies as st

from vlib import session as ss
from vlib.driver import PEER_EVENTS, encode_event
from vlib.runner import hyp_run
from vlib.sim import Sim

PROPERTY = 'C12'
RULE = ('event sequences over {accept/refuse any pending attempt, peer messages and close on any live connection, '
        'time to the next due instant with every firing order of same-instant calls, manual stop/start}, '
        'connect_retry in {5,29,30,31,60}. Non-trivial = a timer fires or an operator command arrives while a connect '
        'attempt is pending; distinct by (fingerprint,event) in BFS / by sequence in walks.')
ASSUMPTIONS = [
    'a connection on which the agent has called loseConnection counts as ended by the agent (TCP close is asynchronous)',
    'simnet connector semantics (Twisted 20.3): stopConnecting/disconnect abort an attempt',
]
EXHAUSTIVE = {'quick': False, 'thorough': False}
RETRIES = {'quick': [5, 30, 60], 'thorough': [5, 29, 30, 31, 60]}


class MDriver(object):
    """multi-connection driver: no model, invariants only"""

    def __init__(self, cfg):
        self.cfg = cfg
        self.sim = Sim(hold_time=cfg.get('hold', 180), idle_hold_time=cfg.get('idle_hold', 30),
                       connect_retry_time=cfg['connect_retry'], md5=cfg.get('md5'))
        self.sim.reactor.probe = lambda: self.sim.fsm.protocol
        self.sim.reactor.segments = cfg.get('seg')    # every peer message arrives in that many TCP segments
        # the connectionLost that follows the agent's own loseConnection is delivered by the harness
        # as an event of its own ('io'): Twisted only promises "a later reactor iteration"
        self.sim.reactor.defer_io = cfg.get('defer_io', True)
        self.failures = []
        self.history = []
        self.booted = False
        self.nontrivial = False
        self.n = 0

    # ---- situation
    def open_connectors(self):
        out = []
        for c in self.sim.reactor.connectors:
            tr = c.transport
            if c.state == 'connecting' or (c.state == 'connected' and tr is not None and tr.connected and not tr.disconnecting):
                out.append(c)
        return out

    def live(self):
        return [c for c in self.open_connectors() if c.state == 'connected']

    def enabled(self):
        ev = []
        if not self.booted:
            # the agent's first automatic start runs a start-up delay after the REST server is up: operator
            # commands (and whatever they set in motion) may come first
            ev.append(['boot'])
        r = self.sim.reactor
        for i, c in enumerate(r.attempts()[:3]):
            ev += [['ok', i], ['refused', i]]
        for i, c in enumerate(self.live()[:2]):
            ev += [[e[0]] + [i] + e[1:] for e in PEER_EVENTS if e[0] in ('open', 'ka', 'upd', 'notif', 'close', 'bad_marker')
                   and (e[0] != 'open' or e[1] in ('valid', 'h1'))]
        t = r.next_time()
        if t is not None:
            ndue = len([c for c in r.pending() if c.time == t])
            for p in range(min(6, _fact(ndue))):
                ev.append(['tick', p])
        ev += [['stop'], ['start']]
        if r.pending_io():
            ev.append(['io'])
        return ev

    def apply(self, ev):
        sim, r = self.sim, self.sim.reactor
        mark = sim.mark()
        nerr = len(sim.errors)
        k = ev[0]
        pend_before = bool(r.attempts())
        if k == 'boot':
            sim.boot()
            self.booted = True
        elif k == 'ok':
            r.accept(r.attempts()[ev[1]])
        elif k == 'refused':
            r.refuse(r.attempts()[ev[1]])
        elif k == 'tick':
            t = r.next_time()
            perm_idx = ev[1]

            def order(ties, _p=perm_idx):
                perms = list(itertools.islice(itertools.permutations(range(len(ties))), _p + 1))
                return ties[perms[min(_p, len(perms) - 1)][0]]
            r.advance_to(t, order=order)
            if pend_before:
                self.nontrivial = True
        elif k == 'stop':
            sim.manual_stop()
            if pend_before:
                self.nontrivial = True
        elif k == 'start':
            sim.manual_start()
            if pend_before:
                self.nontrivial = True
        elif k == 'close':
            r.peer_close(self.live()[ev[1]])
        elif k == 'io':
            r.deliver_io(0)
        else:
            c = self.live()[ev[1]]
            self.n += 1
            r.peer_send(c, encode_event(sim, [k] + ev[2:], self.n))
        r.settle(fire_due=True)
        self.history.append(ev)
        self._check(ev, sim.since(mark), sim.errors[nerr:])

    # ---- invariants
    def _check(self, ev, tr, errors):
        for e in errors:
            if len(self.cfg.get('md5') or '') > 80 and e[2] == 'OSError':
                # a TCP-MD5 key the kernel refuses (EINVAL) makes connect() raise after the attempt was started: how the agent
                # reports its own misconfiguration is not this property's subject, the connection invariants below are
                continue
            self.failures.append(('escaped:%s@%s' % (e[2], e[3]), 'exception escaped %s during %r: %s' % (e[1], ev, e[4])))
        for t, kind, cid, payload in tr:
            if kind == 'connect-while-open':
                states = sorted(set(s for _, s in payload))
                self.failures.append(('connect-while-open:%s:during-%s' % ('+'.join(states), ev[0]),
                                      'connectTCP #%d at t=%s while %r still open (event %r, history %r)'
                                      % (cid, t, payload, ev, self.history)))
            elif kind == 'stale-write':
                self.failures.append(('stale-write', 'bytes written to connector %d which the FSM does not track (event %r)'
                                      % (cid, ev)))
        op = self.open_connectors()
        if len(op) > 1:
            self.failures.append(('multiple-open:%s' % '+'.join(sorted(c.state for c in op)),
                                  '%d connections/attempts open after %r: %r' % (len(op), ev, [(c.id, c.state) for c in op])))
        if self.sim.reactor.livelock:
            self.failures.append(('livelock', 'zero-delay work never quiesces after %r' % (ev,)))

    def quiesce(self):
        """end of sequence: every connection the agent opened must end up tracked or closed"""
        sim, r = self.sim, self.sim.reactor
        while r.pending_io():
            r.deliver_io(0)
        r.defer_io = False
        r.settle(fire_due=True)
        horizon = r.now + self.cfg.get('idle_hold', 30) + 240 + self.cfg.get('hold', 180) + 1
        # let pending attempts time out and timers run; the peer stays silent
        guard = 0
        while r.next_time() is not None and r.next_time() <= horizon and guard < 400:
            r.advance_to(r.next_time())
            r.settle(fire_due=True)
            guard += 1
            for c in self.live():
                if c.protocol is not sim.fsm.protocol:
                    pass
        tracked = sim.fsm.protocol
        for c in self.live():
            if c.protocol is not tracked:
                self.failures.append(('leaked-connection', 'connector %d is still connected after %ss of silence but is not '
                                      'the connection the FSM tracks' % (c.id, horizon - r.now)))
        if len(self.open_connectors()) > 1:
            op = self.open_connectors()
            self.failures.append(('multiple-open-at-quiescence:%s' % '+'.join(sorted(c.state for c in op)),
                                  '%r' % [(c.id, c.state) for c in op]))

    def fingerprint(self):
        sim = self.sim
        fsm = sim.fsm
        now = sim.now

        def tmr(t):
            dc = t.delayed_call
            return None if dc is None or not dc.active() else round(dc.time - now, 6)
        conns = []
        for c in sim.reactor.connectors:
            if c.state in ('connecting', 'connected'):
                tr = c.transport
                conns.append((c.state, bool(tr and tr.connected), bool(tr and tr.disconnecting),
                              c.protocol is fsm.protocol and c.protocol is not None,
                              round(c.timeoutID.time - now, 6) if c.timeoutID is not None and c.timeoutID.active() else None))
        return (fsm.state, fsm.allow_automatic_start, fsm.hold_time, tmr(fsm.connect_retry_timer), tmr(fsm.hold_timer),
                tmr(fsm.keep_alive_timer), tmr(fsm.idle_hold_timer), tuple(conns), len(sim.reactor._soon), self.booted,
                sim.peering.connector is not None if hasattr(sim.peering, 'connector') else None,
                sim.peering.estab_protocol is fsm.protocol)


def _fact(n):
    f = 1
    for i in range(2, n + 1):
        f *= i
    return f


def run_events(cfg, events, quiesce=True):
    d = MDriver(cfg)
    for ev in events:
        if list(ev) not in d.enabled():
            return d, False
        d.apply(list(ev))
        if d.failures:
            return d, True
    if quiesce:
        d.quiesce()
    return d, True


def bfs(spec, col):
    cfg, depth = spec['cfg'], spec['depth']
    seen = set()
    nodes = []
    for p in spec['prefixes']:
        d, ok = run_events(cfg, p, quiesce=False)
        col.case({'cfg': cfg, 'events': p}, d.nontrivial, labels=['bfs-prefix'])
        if d.failures:
            for sig, detail in d.failures:
                col.fail(sig, {'cfg': cfg, 'events': p}, detail)
            continue
        fp = d.fingerprint()
        if fp not in seen:
            seen.add(fp)
            nodes.append(p)
    level = len(spec['prefixes'][0]) if spec['prefixes'] else 0
    while nodes and level < depth:
        nxt = []
        for p in nodes:
            d0, _ = run_events(cfg, p, quiesce=False)
            for ev in d0.enabled():
                d, _ = run_events(cfg, p + [ev], quiesce=False)
                q = p + [ev]
                col.case({'cfg': cfg, 'events': q}, d.nontrivial, labels=['bfs-depth-%d' % (level + 1)])
                if d.failures:
                    for sig, detail in d.failures:
                        col.fail(sig, {'cfg': cfg, 'events': q}, detail)
                    continue
                fp = d.fingerprint()
                if fp in seen:
                    continue
                seen.add(fp)
                nxt.append(q)
                # quiescence audit on every new abstract state
                dq, _ = run_events(cfg, q, quiesce=True)
                for sig, detail in dq.failures:
                    col.fail(sig, {'cfg': cfg, 'events': q}, detail)
        nodes = nxt
        level += 1
    col.label('bfs-fingerprints', len(seen))


def prefixes(cfg, n):
    level = [[['boot']], [['start'], ['boot']], [['stop'], ['boot']], [['start'], ['ok', 0], ['boot']]]
    for _ in range(n):
        nxt = []
        for p in level:
            d, _ = run_events(cfg, p, quiesce=False)
            if d.failures:
                nxt.append(p)
                continue
            for ev in d.enabled():
                nxt.append(p + [ev])
        level = nxt
    seen, out = set(), []
    for p in level:
        if repr(p) not in seen:
            seen.add(repr(p))
            out.append(p)
    return out


def shards(tier):
    out = []
    depth = 7 if tier == 'quick' else 9
    for crt in RETRIES[tier]:
        cfg = {'connect_retry': crt, 'hold': 180, 'idle_hold': 30}
        pf = prefixes(cfg, 2)
        n = 4 if tier == 'quick' else 6
        for i in range(n):
            if pf[i::n]:
                out.append({'name': 'bfs-crt%d-%d' % (crt, i), 'kind': 'bfs', 'cfg': cfg, 'prefixes': pf[i::n], 'depth': depth})
    for i in range(8 if tier == 'quick' else 16):
        out.append({'name': 'walks-%d' % i, 'kind': 'walk', 'examples': 800 if tier == 'quick' else 6000,
                    'hypothesis': True, 'steps': 50 if tier == 'quick' else 90})
    return out


def pick(enabled, choice):
    weighted = []
    for ev in enabled:
        w = 3 if ev[0] in ('tick', 'io') else (2 if ev[0] in ('ok', 'start', 'stop') else 1)
        if ev[0] == 'boot':
            w = 8
        weighted += [ev] * w
    return weighted[choice % len(weighted)]


def run_shard(spec, seed, col, tier):
    if spec['kind'] == 'bfs':
        bfs(spec, col)
        return

    def body(case):
        d = MDriver(case['cfg'])
        if not case.get('late_boot'):
            d.apply(['boot'])
        for ch in case['choices']:
            if d.failures:
                break
            d.apply(pick(d.enabled(), ch))
        if not d.failures:
            d.quiesce()
        explicit = {'cfg': case['cfg'], 'events': d.history}
        col.case(explicit, d.nontrivial, labels=['walk', 'crt:%d' % case['cfg']['connect_retry']])
        for sig, detail in d.failures:
            col.fail(sig, explicit, detail)
    strat = st.fixed_dictionaries({
        'cfg': st.sampled_from([dict({'connect_retry': c, 'hold': h, 'idle_hold': i, 'md5': m}, **({'seg': s} if s else {}))
                                for c in (1, 5, 29, 30, 31, 60) for h, i in ((180, 30), (9, 5), (180, 0), (0, 30), (65536, 30))
                                for m in (None, None, None, 'secret', 'k' * 81) for s in (None, None, None, 3)]),
        'late_boot': st.sampled_from([False, False, False, True]),
        'choices': st.lists(st.integers(0, 999), min_size=spec['steps'] // 2, max_size=spec['steps'])})
    hyp_run(col, strat, body, seed, spec['examples'])


def replay(case):
    d, ok = run_events(case['cfg'], case['events'], quiesce=True)
    return d.failures if ok else []
