"""C17 - decoded community text is accepted back by the REST API and re-encodes the same.

For every extended-community kind the decoder renders as text, every community (well-known names
included) and every large community: RFC octets (refcodec) -> decoder text -> POST json_to_bin
(and send/update) -> octets of the attribute on the wire == RFC encoding (don't-care bits masked)
-> decoding them renders the identical text.
"""
import struct

from hypothesis import strategies as st

from vlib import env
env.install()

from vlib import refcodec as rc  # noqa: E402
from vlib import session as ss  # noqa: E402
from vlib import strategies as vs  # noqa: E402
from vlib.runner import hyp_run  # noqa: E402
from vlib.sim import Sim  # noqa: E402
from vlib.util import exc_sig  # noqa: E402

from yabgp.message.attribute.extcommunity import ExtCommunity  # noqa: E402
from yabgp.message.attribute.community import Community  # noqa: E402
from yabgp.message.attribute.largecommunity import LargeCommunity  # noqa: E402

PROPERTY = 'C17'
RULE = ('per extended-community kind (route-target/route-origin in 2-octet-AS, IPv4 and 4-octet-AS form, color, '
        'encapsulation, redirect-vrf, redirect-nexthop, traffic-rate, traffic-action, traffic-marking, dmzlink-bw, esi-label, '
        'mac-mobility, es-import, router-mac): boundary and random field values, lists of one kind, lists mixing 2-6 kinds and every ordered pair of kinds (3 x 3 fixed values) in one attribute; communities: every well-known value, 0, '
        '65535:65535, random; large communities with fields to 2^32-1. Non-trivial = a field >= 2^16, an IPv4 '
        'administrator, a non-zero flag or a well-known name; distinct by (kind, octets).')
ASSUMPTIONS = [
    'context: Established session whose peer advertised the 4-octet-AS capability; besides the default configuration also a '
    'local speaker configured without that capability, and an iBGP session with [bgp] rib on',
    'don\'t-care bits are masked: low nibble of the ESI-label field; a 4-octet-AS route-target/origin whose AS fits 16 bits '
    'may come back in the 2-octet-AS type',
    'dmzlink-bw is compared in the integer reading the decoder renders; traffic-rate uses finite non-negative single-precision values',
]
EXHAUSTIVE = {'quick': False, 'thorough': False}
PEER = '10.0.0.2'


def f32(v):
    return struct.unpack('!f', struct.pack('!f', float(v)))[0]


KINDS = {
    'rt0': lambda d: struct.pack('!HHI', 0x0002, d(vs.u16), d(vs.u32)),
    'rt1': lambda d: struct.pack('!H', 0x0102) + rc.ip4(d(vs.ipv4_int)) + struct.pack('!H', d(vs.u16)),
    'rt2': lambda d: struct.pack('!HIH', 0x0202, d(vs.u32), d(vs.u16)),
    'ro0': lambda d: struct.pack('!HHI', 0x0003, d(vs.u16), d(vs.u32)),
    'ro1': lambda d: struct.pack('!H', 0x0103) + rc.ip4(d(vs.ipv4_int)) + struct.pack('!H', d(vs.u16)),
    'ro2': lambda d: struct.pack('!HIH', 0x0203, d(vs.u32), d(vs.u16)),
    'color': lambda d: struct.pack('!HHI', 0x030b, 0, d(vs.u32)),
    'encapsulation': lambda d: struct.pack('!HHI', 0x030c, 0, d(st.one_of(st.integers(0, 20), vs.u32))),
    'redirect-vrf': lambda d: struct.pack('!HHI', 0x8008, d(vs.u16), d(vs.u32)),
    'redirect-nexthop': lambda d: struct.pack('!H', 0x0800) + rc.ip4(d(vs.ipv4_int)) + struct.pack('!H', d(st.sampled_from([0, 1]))),
    'traffic-rate': lambda d: struct.pack('!HHf', 0x8006, d(vs.u16), f32(d(st.one_of(st.sampled_from([0, 1, 1000, 2 ** 24, 2 ** 31]),
                                                                                    st.integers(0, 2 ** 32))))),
    'traffic-action': lambda d: struct.pack('!HIBB', 0x8007, 0, 0, d(st.integers(0, 3))),
    'traffic-marking': lambda d: struct.pack('!HIBB', 0x8009, 0, 0, d(st.integers(0, 63))),
    'dmzlink-bw': lambda d: struct.pack('!HHI', 0x4004, d(vs.u16), d(vs.u32)),
    'esi-label': lambda d: struct.pack('!HBH', 0x0601, d(st.sampled_from([0, 1])), 0) + struct.pack('!I', d(vs.label) << 4)[1:],
    'mac-mobility': lambda d: struct.pack('!HBBI', 0x0600, d(st.sampled_from([0, 1])), 0, d(vs.u32)),
    'es-import': lambda d: struct.pack('!H', 0x0602) + d(st.binary(min_size=6, max_size=6)),
    'router-mac': lambda d: struct.pack('!H', 0x0603) + d(st.binary(min_size=6, max_size=6)),
}


def equivalent(kind, want, got):
    """octet equality up to the documented don't-care bits"""
    if want == got:
        return True
    if kind == 'esi-label' and len(got) == 8:
        return want[:7] == got[:7] and (want[7] & 0xF0) == (got[7] & 0xF0)
    if kind in ('rt2', 'ro2') and len(got) == 8:
        asn, an = struct.unpack('!IH', want[2:])
        if asn <= 65535 and got == struct.pack('!HHI', 0x0002 if kind == 'rt2' else 0x0003, asn, an):
            return True
    return False


_sim = {}


SESSION_CONFIGS = {
    'default': {},
    # the local speaker is configured without the 4-octet-AS capability, the peer still advertises it
    'local-2-octet': {'four_bytes_as': False},
    'ibgp-rib': {'remote_as': 65001, 'rib': True},
}


def session(cfg='default'):
    """one Established session at a time (a new simulator invalidates the previous one); json_to_bin has no side effect
    on the wire, so a session is reused as long as the configuration stays the same"""
    if _sim.get('cfg') != cfg:
        sim = Sim(hold_time=0, **SESSION_CONFIGS[cfg])
        ss.establish(sim, caps=[rc.cap_mp(1, 1), rc.cap(2)], as4=True)
        assert sim.state == 'ESTABLISHED'
        _sim['sim'] = sim
        _sim['cfg'] = cfg
    return _sim['sim']


def post(sim, attr_code, texts, endpoint='json_to_bin'):
    body = {'attr': {'1': 0, '2': [[2, [65001]]], '3': '10.0.0.1', str(attr_code): texts}, 'nlri': ['10.1.0.0/16']}
    mark = sim.mark()
    code, resp = sim.rest('POST', '/v1/peer/%s/%s' % (PEER, endpoint), json_body=body)
    sim.reactor.settle(fire_due=True)
    return code, resp, mark


def attr_octets(raw, attr_code):
    frames = rc.split_frames(raw)
    if len(frames) != 1 or frames[0][0] != rc.UPDATE:
        raise rc.WalkError('not exactly one UPDATE')
    wd, attrs, nlri = rc.split_update(frames[0][1])
    for flags, tc, v, _ in rc.split_attrs(attrs):
        if tc == attr_code:
            return v
    return None


def check(case):
    fam, kind, octets = case['fam'], case['kind'], bytes.fromhex(case['octets'])
    code_ = {'ext': 16, 'std': 8, 'large': 32}[fam]
    parser = {'ext': ExtCommunity, 'std': Community, 'large': LargeCommunity}[fam]
    sim = session(case.get('cfg', 'default'))
    try:
        texts = parser.parse(octets)
    except Exception as e:
        return [('%s:%s:decode-exception:%s' % (fam, kind, exc_sig(e)), '%r decoding %s' % (e, octets.hex()))]
    if not texts or not all(isinstance(t, str) for t in texts):
        return [('%s:%s:no-text' % (fam, kind), 'decoder rendered %r for %s' % (texts, octets.hex()))]
    out = []
    for endpoint in (('json_to_bin', 'send/update') if case.get('send') else ('json_to_bin',)):
        nerr = len(sim.errors)
        code, resp, mark = post(sim, code_, texts, endpoint)
        if sim.errors[nerr:]:
            e = sim.errors[nerr]
            out.append(('%s:%s:escaped:%s@%s' % (fam, kind, e[2], e[3]), '%r' % (e,)))
        raw = None
        oversized = len(octets) > 255      # the encoder has no extended length for community lists: refusing is accepted,
        #                                    but the request must not leave anything behind for the requests that follow
        if oversized and (code != 200 or (isinstance(resp, dict) and resp.get('status') is False)):
            continue
        if endpoint == 'json_to_bin':
            if code != 200 or not isinstance(resp, dict) or not isinstance(resp.get('bin'), str):
                out.append(('%s:%s:not-accepted:%s' % (fam, kind, code), 'POST %r -> %s %r' % (texts, code, resp)))
                continue
            try:
                raw = bytes.fromhex(resp['bin'])
            except ValueError:
                out.append(('%s:%s:bin-not-hex' % (fam, kind), repr(resp)[:200]))
                continue
        else:
            if code != 200 or not isinstance(resp, dict) or resp.get('status') is not True:
                out.append(('%s:%s:send-not-accepted:%s' % (fam, kind, code), 'POST %r -> %s %r' % (texts, code, resp)))
                continue
            wr = [p for _, k, _, p in sim.since(mark) if k == 'write']
            raw = b''.join(wr)
        try:
            got = attr_octets(raw, code_)
        except rc.WalkError as e:
            out.append(('%s:%s:malformed-message' % (fam, kind), '%s: %s' % (e, raw.hex()[:200])))
            continue
        if got is None:
            out.append(('%s:%s:attribute-missing' % (fam, kind), 'no attribute %d in %s' % (code_, raw.hex()[:200])))
            continue
        unit = {'ext': 8, 'std': 4, 'large': 12}[fam]
        kinds = case.get('kinds') or [kind] * (len(octets) // unit)
        same = len(got) == len(octets) and all(
            equivalent(kinds[i // unit], octets[i:i + unit], got[i:i + unit]) for i in range(0, len(octets), unit))
        if not same:
            out.append(('%s:%s:octets-differ' % (fam, kind), 'text %r: RFC octets %s, produced %s' % (texts, octets.hex(), got.hex())))
            continue
        try:
            again = parser.parse(got)
        except Exception as e:
            out.append(('%s:%s:redecode-exception:%s' % (fam, kind, exc_sig(e)), repr(e)))
            continue
        if list(again) != list(texts):
            out.append(('%s:%s:text-differs' % (fam, kind), 'first %r, after the round trip %r' % (texts, again)))
    return out


@st.composite
def ext_case(draw, kind):
    # 16 x 8 = 128 and 31 x 8 = 248 octets: one-octet length edges; 32 and 40 do not fit a one-octet length any more
    n = draw(st.sampled_from([1, 1, 1, 1, 1, 2, 2, 2, 3, 3, 15, 16, 31, 32, 40]))
    octets = b''.join(KINDS[kind](draw) for _ in range(n))
    return {'fam': 'ext', 'kind': kind, 'octets': octets.hex(), 'send': draw(st.integers(0, 3)) == 0}


@st.composite
def mixed_case(draw):
    """one attribute holding communities of several kinds (2-6 of them, any order, kinds may repeat)"""
    kinds = draw(st.lists(st.sampled_from(sorted(KINDS)), min_size=2, max_size=6))
    octets = b''.join(KINDS[k](draw) for k in kinds)
    return {'fam': 'ext', 'kind': 'mixed', 'kinds': kinds, 'octets': octets.hex(), 'send': draw(st.integers(0, 3)) == 0}


class _Fixed(object):
    """stands in for Hypothesis' draw: the i-th representative value of each field"""

    def __init__(self, i):
        self.i = i

    def __call__(self, strategy):
        vals = REPRESENTATIVE.get(id(strategy), FALLBACK)
        return vals[self.i % len(vals)]


REPRESENTATIVE = {id(vs.u16): [1, 65535, 100], id(vs.u32): [1, 2 ** 32 - 1, 70000], id(vs.ipv4_int): [0x0A000001, 0xC0000201, 0xFFFFFFFE],
                  id(vs.label): [5010, 2 ** 20 - 1, 16]}
FALLBACK = [1, 0, 1]


def pair_octets(kind, i):
    """a fixed community of the kind (i selects one of three value sets); kinds whose fields are drawn from ad-hoc strategies
    get explicit values"""
    explicit = {
        'encapsulation': [struct.pack('!HHI', 0x030c, 0, t) for t in (8, 9, 2)],
        'redirect-nexthop': [struct.pack('!H', 0x0800) + rc.ip4(0x0A000001) + struct.pack('!H', c) for c in (0, 1, 0)],
        'traffic-rate': [struct.pack('!HHf', 0x8006, a, f32(r)) for a, r in ((0, 0), (65000, 1000), (1, 2 ** 24))],
        'traffic-action': [struct.pack('!HIBB', 0x8007, 0, 0, f) for f in (1, 2, 3)],
        'traffic-marking': [struct.pack('!HIBB', 0x8009, 0, 0, v) for v in (1, 63, 0)],
        'esi-label': [struct.pack('!HBH', 0x0601, f, 0) + struct.pack('!I', l << 4)[1:] for f, l in ((1, 5010), (0, 2 ** 20 - 1), (1, 16))],
        'mac-mobility': [struct.pack('!HBBI', 0x0600, f, 0, s) for f, s in ((1, 1), (0, 2 ** 32 - 1), (1, 0))],
        'es-import': [struct.pack('!H', 0x0602) + m for m in (b'\x00\x11\x22\x33\x44\x55', b'\xff' * 6, b'\x00' * 5 + b'\x01')],
        'router-mac': [struct.pack('!H', 0x0603) + m for m in (b'\x00\x11\x22\x33\x44\x55', b'\xff' * 6, b'\x00' * 5 + b'\x01')],
    }
    if kind in explicit:
        return explicit[kind][i % 3]
    return KINDS[kind](_Fixed(i))


std_value = st.one_of(st.sampled_from(sorted(rc.WELL_KNOWN_COMMUNITIES)), st.sampled_from([0, 0xFFFFFFFF, 0xFFFF0006, 0xFFFEFFFF, 0x00010000, 65535]),
                      vs.u32)
std_case = st.one_of(st.lists(std_value, min_size=1, max_size=5), st.lists(std_value, min_size=1, max_size=5),
                     st.sampled_from([31, 32, 63]).flatmap(lambda n: st.lists(std_value, min_size=n, max_size=n))).map(
    lambda vals: {'fam': 'std', 'kind': 'well-known' if any(v in rc.WELL_KNOWN_COMMUNITIES for v in vals) else 'numeric',
                  'octets': b''.join(struct.pack('!I', v) for v in vals).hex(), 'send': len(vals) == 1})
_large = st.tuples(vs.u32, vs.u32, vs.u32)
large_case = st.one_of(st.lists(_large, min_size=1, max_size=4), st.lists(_large, min_size=1, max_size=4),
                       st.sampled_from([10, 11, 21]).flatmap(lambda n: st.lists(_large, min_size=n, max_size=n))).map(
    lambda vals: {'fam': 'large', 'kind': 'big' if any(x >= 2 ** 31 for t in vals for x in t) else 'small',
                  'octets': b''.join(struct.pack('!III', *t) for t in vals).hex(), 'send': len(vals) == 1})


def nontrivial(case):
    o = bytes.fromhex(case['octets'])
    if case['fam'] == 'std':
        return case['kind'] == 'well-known' or any(o[i] or o[i + 1] for i in range(0, len(o), 4))
    if case['fam'] == 'large':
        return any(int.from_bytes(o[i:i + 4], 'big') >= 65536 for i in range(0, len(o), 4))
    return any(b for b in o[2:6]) or case['kind'] in ('rt1', 'ro1', 'redirect-nexthop', 'mixed')


def shards(tier):
    per = 400 if tier == 'quick' else 12000
    out = [{'name': 'ext-' + k, 'kind': 'ext', 'ext': k, 'examples': per, 'hypothesis': True} for k in sorted(KINDS)]
    # the same kinds on sessions with another configuration (fewer examples each)
    for cfg in sorted(SESSION_CONFIGS):
        if cfg != 'default':
            out += [{'name': 'ext-%s-%s' % (k, cfg), 'kind': 'ext', 'ext': k, 'cfg': cfg, 'examples': max(40, per // 4), 'hypothesis': True}
                    for k in sorted(KINDS)]
            out.append({'name': 'std-' + cfg, 'kind': 'std', 'cfg': cfg, 'examples': 300 if tier == 'quick' else 20000, 'hypothesis': True})
    out.append({'name': 'ext-mixed', 'kind': 'mixed', 'examples': 3 * per, 'hypothesis': True})
    for i in range(3):
        out.append({'name': 'ext-pairs-%d' % i, 'kind': 'pairs', 'variant': i})
    out.append({'name': 'std', 'kind': 'std', 'examples': 1500 if tier == 'quick' else 200000, 'hypothesis': True})
    out.append({'name': 'large', 'kind': 'large', 'examples': 600 if tier == 'quick' else 60000, 'hypothesis': True})
    return out


def run_shard(spec, seed, col, tier):
    if spec['kind'] == 'pairs':
        # every ordered pair of community kinds in one attribute (three fixed value sets per kind)
        i = spec['variant']
        for a in sorted(KINDS):
            for b in sorted(KINDS):
                for j in range(3):
                    case = {'fam': 'ext', 'kind': 'mixed', 'kinds': [a, b], 'octets': (pair_octets(a, i) + pair_octets(b, j)).hex(), 'send': (i == j)}
                    res = check(case)
                    col.case(case, a != b, labels=['ext:pairs'])
                    for sig, detail in res:
                        col.fail(sig, case, detail)
        return
    strat = ext_case(spec['ext']) if spec['kind'] == 'ext' else (mixed_case() if spec['kind'] == 'mixed' else (std_case if spec['kind'] == 'std' else large_case))

    def body(case):
        if spec.get('cfg'):
            case = dict(case, cfg=spec['cfg'])
        res = check(case)
        col.case(case, nontrivial(case), labels=['%s:%s' % (case['fam'], case['kind']), 'session:' + case.get('cfg', 'default')])
        for sig, detail in res:
            col.fail(sig, case, detail)
    hyp_run(col, strat, body, seed, spec['examples'])


def replay(case):
    return check(case)
