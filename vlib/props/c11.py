"""C11 - every decoder terminates on every input; UPDATE decoding never raises.

Oracle: every decoder call returns or raises within a deterministic work budget (yabgp line
events, A + B*len(input)); Update.parse on a body whose two length fields are in range returns a
dict with the documented keys and never raises.
"""
import inspect
import itertools
import struct

from hypothesis import strategies as st

from vlib import env
env.install()

from vlib import budget  # noqa: E402
from vlib import vectors  # noqa: E402
from vlib import refcodec as rc  # noqa: E402
from vlib.runner import hyp_run  # noqa: E402
from vlib.util import exc_sig  # noqa: E402

from yabgp.message.update import Update  # noqa: E402
from yabgp.message.open import Open, Capability  # noqa: E402
from yabgp.message.notification import Notification  # noqa: E402
from yabgp.message.keepalive import KeepAlive  # noqa: E402
from yabgp.message.route_refresh import RouteRefresh  # noqa: E402
from yabgp.message.attribute.mpreachnlri import MpReachNLRI  # noqa: E402
from yabgp.message.attribute.mpunreachnlri import MpUnReachNLRI  # noqa: E402
from yabgp.message.attribute.linkstate.linkstate import LinkState  # noqa: E402
import yabgp.message.attribute.linkstate  # noqa: E402,F401  (registers the TLV classes)
from yabgp.message.attribute.sr.bgpprefixsid import BGPPrefixSID  # noqa: E402
from yabgp.message.attribute.nlri.linkstate import BGPLS  # noqa: E402
from yabgp.message.attribute.nlri.evpn import EVPN  # noqa: E402
from yabgp.message.attribute.nlri.ipv4_flowspec import IPv4FlowSpec  # noqa: E402
from yabgp.message.attribute.nlri.ipv6_flowspec import IPv6FlowSpec  # noqa: E402
from yabgp.message.attribute.nlri.ipv4_unicast import IPv4Unicast  # noqa: E402
from yabgp.message.attribute.nlri.ipv6_unicast import IPv6Unicast  # noqa: E402
from yabgp.message.attribute.nlri.ipv4_mpls_vpn import IPv4MPLSVPN  # noqa: E402
from yabgp.message.attribute.nlri.ipv6_mpls_vpn import IPv6MPLSVPN  # noqa: E402
from yabgp.message.attribute.nlri.labeled_unicast.ipv4 import IPv4LabeledUnicast  # noqa: E402
from yabgp.message.attribute.nlri.labeled_unicast.ipv6 import IPv6LabeledUnicast  # noqa: E402
from yabgp.message.attribute.extcommunity import ExtCommunity  # noqa: E402
from yabgp.message.attribute.community import Community  # noqa: E402
from yabgp.message.attribute.largecommunity import LargeCommunity  # noqa: E402
from yabgp.message.attribute.aspath import ASPath  # noqa: E402
from yabgp.message.attribute.aggregator import Aggregator  # noqa: E402
from yabgp.message.attribute.clusterlist import ClusterList  # noqa: E402
from yabgp.message.attribute.originatorid import OriginatorID  # noqa: E402
from yabgp.message.attribute.pmsitunnel import PMSITunnel  # noqa: E402
from yabgp.message.attribute.origin import Origin  # noqa: E402
from yabgp.message.attribute.nexthop import NextHop  # noqa: E402
from yabgp.message.attribute.med import MED  # noqa: E402
from yabgp.message.attribute.localpref import LocalPreference  # noqa: E402
from yabgp.message.attribute.atomicaggregate import AtomicAggregate  # noqa: E402

PROPERTY = 'C11'
RULE = ('per decoder: all byte strings of <= 2 octets (exhaustive), every single-octet mutation (5 values per '
        'position), truncation and extension of every byte string harvested from the unit tests, every registered '
        'link-state TLV type x sub-length 0..16 x filler patterns, every octet position of ~30 well-formed UPDATE '
        'bodies (one per address family / route type, built with the reference encoder) set to each of 60 boundary '
        'values (all 256 in the thorough tier) through Update.parse, every registered link-state / prefix-SID TLV nested '
        'inside itself as deep as 4000 octets allow (x fixed-prefix lengths x innermost values), regular patterns of 1024 / 4096 '
        'octets through every decoder, every attribute type / link-state TLV / link-state NLRI descriptor holding one 3700-octet value alone and next to a refused attribute, Hypothesis random / TLV-soup inputs up to 4096 '
        'octets. Non-trivial = input of >= 3 octets that is not one of the harvested valid encodings, or one of the '
        'exhaustive short strings; distinct by (decoder, bytes).')
ASSUMPTIONS = [
    'work is measured as yabgp line events (sys.monitoring), allowance 20000 + 400 per input octet; any exception '
    'type is acceptable for leaf decoders, only Update.parse must not raise',
    'work inside C code is invisible to line events: for text-like values of growing length the processor time of the call is '
    'measured too and 3 s for one call on <= 4096 octets counts as unbounded (typical calls take well under 0.05 s)',
]
EXHAUSTIVE = {'quick': False, 'thorough': False}

MP_FAMILIES = [(1, 1), (1, 4), (1, 128), (1, 133), (1, 73), (2, 1), (2, 4), (2, 128), (2, 133), (25, 70), (16388, 71),
               (1, 2), (3, 1), (0, 0)]


def _mp_reach(afi, safi):
    nh = {1: b'\x0a\x00\x00\x01', 2: b'\x20\x01' + b'\x00' * 13 + b'\x01', 25: b'\x0a\x00\x00\x01',
          16388: b'\x0a\x00\x00\x01'}.get(afi, b'')
    if safi == 128:
        nh = b'\x00' * 8 + nh
    hdr = struct.pack('!HBB', afi, safi, len(nh)) + nh + b'\x00'
    return lambda b: MpReachNLRI.parse(hdr + b)


def _mp_unreach(afi, safi):
    hdr = struct.pack('!HB', afi, safi)
    return lambda b: MpUnReachNLRI.parse(hdr + b)


def _attr(tc, flags=0xC0):
    def f(b):
        if len(b) > 255:
            data = struct.pack('!BBH', flags | 0x10, tc, len(b)) + b
        else:
            data = struct.pack('!BBB', flags, tc, len(b)) + b
        return Update.parse_attributes(data, True, None)
    return f


def _ls_wrapped(tc, pro):
    return lambda b: LinkState.unpack(data=struct.pack('!HH', tc, len(b)) + b, bgpls_pro_id=pro)


def _tlv_class(klass, pro):
    params = inspect.signature(klass.unpack).parameters
    if len(params) >= 2:
        return lambda b: klass.unpack(b, pro)
    return lambda b: klass.unpack(b)


def build_decoders():
    d = {}
    d['Update.parse'] = lambda b: Update.parse(None, b, False, None)
    d['Update.parse/asn4+addpath'] = lambda b: Update.parse(None, b, True, {'ipv4': True, 'ipv6': True, 'vpnv4': True})
    d['Update.parse_attributes'] = lambda b: Update.parse_attributes(b, False, None)
    d['Update.parse_attributes/asn4'] = lambda b: Update.parse_attributes(b, True, {'ipv4': True})
    d['Update.parse_prefix_list'] = lambda b: Update.parse_prefix_list(b)
    d['Update.parse_prefix_list/addpath'] = lambda b: Update.parse_prefix_list(b, True)
    d['Open.parse'] = lambda b: Open().parse(b)
    d['Open.parse/params'] = lambda b: Open().parse(struct.pack('!BHHIB', 4, 65001, 180, 1, len(b) & 0xFF) + b)
    d['Open.parse/caps'] = lambda b: Open().parse(struct.pack('!BHHIBBB', 4, 65001, 180, 1, (len(b) + 2) & 0xFF, 2,
                                                              len(b) & 0xFF) + b)
    d['Capability.parse'] = lambda b: Capability().parse(b)
    d['Notification.parse'] = lambda b: Notification.parse(b)
    d['RouteRefresh.parse'] = lambda b: RouteRefresh().parse(b)
    d['KeepAlive.parse'] = lambda b: KeepAlive.parse(b)
    d['MpReachNLRI.parse'] = lambda b: MpReachNLRI.parse(b)
    d['MpUnReachNLRI.parse'] = lambda b: MpUnReachNLRI.parse(b)
    for afi, safi in MP_FAMILIES:
        d['MpReachNLRI.parse/%d-%d' % (afi, safi)] = _mp_reach(afi, safi)
        d['MpUnReachNLRI.parse/%d-%d' % (afi, safi)] = _mp_unreach(afi, safi)
    for name, f in [
        ('IPv4Unicast.parse', lambda b: IPv4Unicast.parse(b)), ('IPv4Unicast.parse/addpath', lambda b: IPv4Unicast.parse(b, True)),
        ('IPv6Unicast.parse', lambda b: IPv6Unicast.parse(b)), ('IPv6Unicast.parse/addpath', lambda b: IPv6Unicast.parse(b, True)),
        ('IPv4MPLSVPN.parse', lambda b: IPv4MPLSVPN.parse(b)), ('IPv4MPLSVPN.parse/withdraw', lambda b: IPv4MPLSVPN.parse(b, True)),
        ('IPv6MPLSVPN.parse', lambda b: IPv6MPLSVPN.parse(b)), ('IPv6MPLSVPN.parse/addpath', lambda b: IPv6MPLSVPN.parse(b, False, True)),
        ('IPv4LabeledUnicast.parse', lambda b: IPv4LabeledUnicast.parse(b)),
        ('IPv6LabeledUnicast.parse', lambda b: IPv6LabeledUnicast.parse(b)),
        ('IPv4LabeledUnicast.parse/addpath', lambda b: IPv4LabeledUnicast.parse(b, True)),
        ('EVPN.parse', lambda b: EVPN.parse(b)),
        ('IPv4FlowSpec.parse', lambda b: IPv4FlowSpec.parse(b)), ('IPv6FlowSpec.parse', lambda b: IPv6FlowSpec.parse(b)),
        ('BGPLS.parse', lambda b: BGPLS.parse(b)),
        ('BGPPrefixSID.unpack', lambda b: BGPPrefixSID.unpack(data=b)),
        ('ExtCommunity.parse', lambda b: ExtCommunity.parse(b)), ('Community.parse', lambda b: Community.parse(b)),
        ('LargeCommunity.parse', lambda b: LargeCommunity.parse(b)),
        ('ASPath.parse', lambda b: ASPath.parse(b, False)), ('ASPath.parse/asn4', lambda b: ASPath.parse(b, True)),
        ('Aggregator.parse', lambda b: Aggregator.parse(b, False)), ('Aggregator.parse/asn4', lambda b: Aggregator.parse(b, True)),
        ('ClusterList.parse', lambda b: ClusterList.parse(b)), ('OriginatorID.parse', lambda b: OriginatorID.parse(b)),
        ('PMSITunnel.parse', lambda b: PMSITunnel.parse(b)),
        ('PMSITunnel.parse/evpn', lambda b: PMSITunnel.parse(b, {'evpn': True, 'encap_ec': True, 'encap_value': 8})),
        ('Origin.parse', lambda b: Origin.parse(b)), ('NextHop.parse', lambda b: NextHop.parse(b)),
        ('MED.parse', lambda b: MED.parse(b)), ('LocalPreference.parse', lambda b: LocalPreference.parse(b)),
        ('AtomicAggregate.parse', lambda b: AtomicAggregate.parse(b)),
    ]:
        d[name] = f
    for tc in (1, 2, 3, 4, 5, 6, 7, 8, 9, 10, 14, 15, 16, 17, 18, 22, 23, 29, 32, 40, 99, 128):
        d['attr/%d' % tc] = _attr(tc)
    for pro in (None, 1, 2, 3, 4, 5, 6, 7):
        d['LinkState.unpack/pro=%s' % pro] = (lambda p: (lambda b: LinkState.unpack(data=b, bgpls_pro_id=p)))(pro)
    for tc, klass in sorted(LinkState.registered_tlvs.items()):
        if hasattr(klass, 'unpack'):
            d['lstlv/%d' % tc] = _tlv_class(klass, 2)
        d['lstlv/%d/wrapped' % tc] = _ls_wrapped(tc, 2)
    for tc, klass in sorted(BGPPrefixSID.registered_tlvs.items()):
        d['sidtlv/%d' % tc] = (lambda k: (lambda b: k.unpack(b)))(klass)
        d['sidtlv/%d/wrapped' % tc] = (lambda t: (lambda b: BGPPrefixSID.unpack(data=struct.pack('!BH', t, len(b)) + b)))(tc)
    return d


DECODERS = build_decoders()
UPDATE_ENTRY = ('Update.parse', 'Update.parse/asn4+addpath')
VALID = None


def call(name, data, col=None):
    """-> list of (sig, detail)"""
    f = DECODERS[name]
    lim = budget.allowance(len(data))
    res = None
    raised = None
    with budget.region(lim) as r:
        try:
            res = f(data)
        except Exception as e:  # noqa - any exception type is acceptable for leaf decoders
            raised = e
    if col is not None and not r.exceeded:
        col.maximum('work_ratio', r.used / float(lim))
    out = []
    if r.exceeded:
        out.append(('budget@%s' % r.where, '%s did not finish within %d line events on %d octets (%s)'
                    % (name, lim, len(data), data[:64].hex())))
        return out
    if name in UPDATE_ENTRY and in_range(data):
        if raised is not None:
            out.append(('update-raises:%s' % exc_sig(raised), '%r on %s' % (raised, data[:64].hex())))
        elif not (isinstance(res, dict) and {'attr', 'nlri', 'withdraw', 'sub_error'} <= set(res)):
            out.append(('update-result-shape', 'result %r' % (res,)))
    return out


def in_range(body):
    if len(body) < 4:
        return False
    wl = struct.unpack('!H', body[:2])[0]
    if 2 + wl + 2 > len(body):
        return False
    al = struct.unpack('!H', body[2 + wl:4 + wl])[0]
    return 2 + wl + 2 + al <= len(body)


# ------------------------------------------------------------------------------------------ inputs
def mutations(v, max_pos=160):
    n = len(v)
    step = 1 if n <= max_pos else (n // max_pos + 1)
    for i in range(0, n, step):
        b = v[i]
        for nb in {0x00, 0xFF, b ^ 0x01, b ^ 0x80, (b + 1) & 0xFF} - {b}:
            yield v[:i] + bytes([nb]) + v[i + 1:]
    for k in range(0, n, step):
        yield v[:k]
    for k in (1, 2, 3, 4, 8):
        yield v + v[:k]
        yield v + b'\x00' * k
        yield v + b'\xff' * k


# ---- structured UPDATE bodies (built with the reference encoder) and field-value mutation ----------
_CORPUS = None
QUICK_VALUES = sorted(set(range(0, 41)) | {63, 64, 65, 96, 120, 127, 128, 129, 130, 136, 144, 160, 192, 200, 224,
                                            240, 248, 254, 255})


def structured_corpus():
    """One well-formed UPDATE body per family / attribute mix, plus the unit tests' in-range bodies."""
    global _CORPUS
    if _CORPUS is not None:
        return _CORPUS
    from vlib import corpus
    out = list(corpus.update_bodies())
    for v in vectors.vectors():
        if len(v) >= 12 and in_range(v):
            out.append(('test-vector', v))
        elif len(v) >= 31 and v[:16] == b'\xff' * 16 and v[18] == 2 and in_range(v[19:]):
            out.append(('test-vector', v[19:]))
    seen = set()
    _CORPUS = []
    for name, b in out:
        if b not in seen:
            seen.add(b)
            _CORPUS.append((name, b))
    return _CORPUS


def field_mutations(body, values, max_pos=400):
    n = len(body)
    step = 1 if n <= max_pos else (n // max_pos + 1)
    for i in range(0, n, step):
        for nb in values:
            if nb != body[i]:
                yield i, body[:i] + bytes([nb]) + body[i + 1:]


FILLERS = [lambda n: b'\x00' * n, lambda n: b'\xff' * n, lambda n: bytes((i % 255) + 1 for i in range(n)),
           lambda n: (b'\x00\x03' * n)[:n], lambda n: (b'\x00\x00\x00\x04' * n)[:n], lambda n: (b'\x01\x00' * n)[:n],
           lambda n: (b'\x00\x05\x00\x03' * n)[:n]]


# processor time one decoder call may take on <= 4096 octets before it counts as unbounded work (the slowest call on the
# unchanged tree stays below 0.05 s; the limit only matters for work the line-event budget cannot see)
CPU_LIMIT = 3.0
TEXT_LENGTHS = [8, 12, 16, 18, 20, 21, 22, 23, 24, 25, 26, 27, 28, 30, 32, 36, 40, 48, 64, 128, 255, 1024, 4000]
TEXT_PATTERNS = [
    lambda n: (b'a' * n)[:n - 1] + b'!',                                   # a long run of letters, then something else
    lambda n: (b'router-17.backbone.example.net ' * n)[:n - 1] + b')',     # host name followed by a remark
    lambda n: (b'a1_' * n)[:n - 1] + b' ',
    lambda n: (b'0123456789' * n)[:n - 1] + b'x',
    lambda n: (b'a.' * n)[:n - 1] + b'..',
    lambda n: (b'a-' * n)[:n - 1] + b'_!',
    lambda n: b' ' * (n - 1) + b'a',
    lambda n: (b'ab' * n)[:n],                                             # plain text that matches
    lambda n: (b'\xc3\xa9' * n)[:n - 1] + b'!',                            # non-ASCII letters
    lambda n: (b'a' * n)[:n - 2] + b'\x00!',
]
BIG = 3700
ERR_ATTRS = [rc.attr(0x40, 1, b'\x05'), rc.attr(0x40, 1, b'\x00\x00'), rc.attr(0x40, 200, b''), rc.attr(0x40, 3, b'\x0a\x00\x00'),
             b'\x40']


def big_field_updates():
    """-> (label, UPDATE body): every attribute type / link-state TLV / link-state NLRI descriptor holding one value of BIG
    octets, alone and with an attribute the decoder refuses before or after it"""
    fills = [FILLERS[1], FILLERS[2], FILLERS[0]]
    bigs = []
    for tc in range(256):
        for fi, f in enumerate(fills):
            flags = 0x40 if tc in (1, 2, 3, 5, 6) else (0x80 if tc in (4, 9, 10, 14, 15, 29) else 0xC0)
            bigs.append(('attr%d/fill%d' % (tc, fi), rc.attr(flags, tc, f(BIG), ext=True)))
    for tc in sorted(LinkState.registered_tlvs):
        for fi, f in enumerate(fills[:2]):
            bigs.append(('ls-tlv%d/fill%d' % (tc, fi), rc.attr(0x80, 29, struct.pack('!HH', tc, BIG) + f(BIG), ext=True)))
    for tc in sorted(BGPPrefixSID.registered_tlvs):
        bigs.append(('sid-tlv%d' % tc, rc.attr(0xC0, 40, struct.pack('!BH', tc, BIG) + fills[0](BIG), ext=True)))
    # BGP-LS NLRI (RFC 7752 3.2): type, length, protocol id, identifier, descriptor TLVs; one descriptor (sub-)TLV is huge
    for ntype in (1, 2, 3, 4, 6):
        for outer in (256, 257):
            for sub in (512, 513, 514, 515, 516, 517, 518):
                for fi, f in enumerate(fills[:2]):
                    d = struct.pack('!HH', outer, BIG + 4) + struct.pack('!HH', sub, BIG) + f(BIG)
                    nl = struct.pack('!HH', ntype, 9 + len(d)) + b'\x02' + b'\x00' * 8 + d
                    bigs.append(('ls-nlri%d/%d/%d/fill%d' % (ntype, outer, sub, fi), rc.a_mp_reach(16388, 71, b'\x0a\x00\x00\x01', nl, ext=True)))
        for top in (258, 259, 260, 261, 262, 263, 264, 265, 518, 1161, 1162):
            local = struct.pack('!HH', 256, 8) + struct.pack('!HHI', 512, 4, 65001)
            d = local + struct.pack('!HH', top, BIG) + fills[0](BIG)
            nl = struct.pack('!HH', ntype, 9 + len(d)) + b'\x02' + b'\x00' * 8 + d
            bigs.append(('ls-nlri%d/top%d' % (ntype, top), rc.a_mp_reach(16388, 71, b'\x0a\x00\x00\x01', nl, ext=True)))
            bigs.append(('ls-nlri%d/top%d/unreach' % (ntype, top), rc.a_mp_unreach(16388, 71, nl, ext=True)))
    for label, big in bigs:
        yield label, rc.update_body(attrs=big)
        for ei, e in enumerate(ERR_ATTRS):
            yield '%s+err%d' % (label, ei), rc.update_body(attrs=big + e)
            if len(e) > 1:
                yield 'err%d+%s' % (ei, label), rc.update_body(attrs=e + big)


def decoder_groups(n):
    names = sorted(DECODERS)
    return [names[i::n] for i in range(n)]


tlv_soup = st.lists(
    st.tuples(st.one_of(st.sampled_from(sorted(LinkState.registered_tlvs)), st.integers(0, 65535)),
              st.one_of(st.none(), st.integers(0, 40)), st.binary(max_size=24)),
    max_size=12).map(lambda l: b''.join(struct.pack('!HH', t, (len(v) if ln is None else ln)) + v for t, ln, v in l))

update_soup = st.tuples(st.binary(max_size=12), st.lists(
    st.tuples(st.sampled_from([0x40, 0x80, 0xC0, 0x90, 0xD0, 0xE0]),
              st.sampled_from([1, 2, 3, 4, 5, 6, 7, 8, 9, 10, 14, 15, 16, 17, 18, 22, 23, 29, 32, 40, 99]),
              st.binary(max_size=40)), max_size=6), st.binary(max_size=12)).map(
    lambda t: struct.pack('!H', len(t[0])) + t[0] +
    (lambda a: struct.pack('!H', len(a)) + a)(b''.join(
        (struct.pack('!BBH', f, c, len(v)) if f & 0x10 else struct.pack('!BBB', f, c, len(v))) + v for f, c, v in t[1])) + t[2])


# ------------------------------------------------------------------------------------------ shards
def shards(tier):
    out = []
    ng = 16
    for i in range(ng):
        out.append({'name': 'short+mutations-%d' % i, 'kind': 'enum', 'group': i, 'ngroups': ng,
                    'three': False})
    for i in range(8):
        out.append({'name': 'lstlv-%d' % i, 'kind': 'lstlv', 'part': i, 'parts': 8,
                    'maxlen': 16 if tier == 'quick' else 24})
    for i in range(16):
        out.append({'name': 'field-values-%d' % i, 'kind': 'fields', 'part': i, 'parts': 16})
    for i in range(8):
        out.append({'name': 'tlv-towers-%d' % i, 'kind': 'towers', 'part': i, 'parts': 8})
    for i in range(16):
        out.append({'name': 'long-patterns-%d' % i, 'kind': 'long', 'group': i, 'ngroups': 16})
    for i in range(8):
        out.append({'name': 'text-values-%d' % i, 'kind': 'text', 'part': i, 'parts': 8})
    for i in range(8):
        out.append({'name': 'big-field+error-%d' % i, 'kind': 'bigfield', 'part': i, 'parts': 8})
    for i in range(4 if tier == 'quick' else 16):
        out.append({'name': 'field-pairs-%d' % i, 'kind': 'fields2', 'examples': 1500 if tier == 'quick' else 60000,
                    'hypothesis': True})
    nrand = 150 if tier == 'quick' else 6000
    for i in range(8):
        out.append({'name': 'random-%d' % i, 'kind': 'random', 'group': i, 'ngroups': 8, 'examples': nrand,
                    'hypothesis': True})
    if tier == 'thorough':
        for i in range(16):
            out.append({'name': 'three-octets-%d' % i, 'kind': 'three', 'part': i, 'parts': 16})
        for i in range(16):
            out.append({'name': 'atheris-%d' % i, 'kind': 'atheris', 'seconds': 240, 'fuzzseed': i + 1})
    return out


def run_shard(spec, seed, col, tier):
    kind = spec['kind']
    if kind == 'atheris':
        import sys as _sys
        from vlib import fuzzshard
        fuzzshard.run('C11', _sys.modules[__name__], col, spec['seconds'], seed % 1000 * 0 + spec['fuzzseed'])
        return
    budget.enable()
    if kind == 'enum':
        names = decoder_groups(spec['ngroups'])[spec['group']]
        shorts1 = [b''] + [bytes([a]) for a in range(256)]
        shorts2 = shorts1 + [bytes([a, b]) for a in range(256) for b in range(256)]
        vecs = vectors.vectors()
        valid = set(vecs)
        for name in names:
            n = 0
            # TLV classes are covered by the sub-length grid; all 2-octet strings for the others
            minor = name.startswith(('lstlv/', 'sidtlv/', 'attr/')) or (tier == 'quick' and '/' in name)
            for data in (shorts1 if minor else shorts2):
                for sig, detail in call(name, data, col):
                    col.fail(sig, {'decoder': name, 'data': data.hex()}, detail)
                n += 1
            col.bulk(n, n, label='short:' + name.split('/')[0])
            n = nt = 0
            for v in vecs:
                for data in itertools.chain([v], mutations(v)):
                    for sig, detail in call(name, data, col):
                        col.fail(sig, {'decoder': name, 'data': data.hex()}, detail)
                    n += 1
                    if len(data) >= 3 and data not in valid:
                        nt += 1
            col.bulk(n, nt, label='mutation:' + name.split('/')[0],
                     sample={'decoder': name, 'data': vecs[0][:-1].hex() + 'ff'})
    elif kind == 'lstlv':
        items = sorted(LinkState.registered_tlvs)[spec['part']::spec['parts']]
        n = 0
        for tc in items:
            for name in ('lstlv/%d' % tc, 'lstlv/%d/wrapped' % tc):
                if name not in DECODERS:
                    continue
                for ln in range(0, spec['maxlen'] + 1):
                    for fill in FILLERS:
                        data = fill(ln)
                        for sig, detail in call(name, data, col):
                            col.fail(sig, {'decoder': name, 'data': data.hex()}, detail)
                        n += 1
        col.bulk(n, n, label='lstlv-sublengths', sample={'decoder': 'lstlv/%d' % items[0], 'data': FILLERS[3](7).hex()})
    elif kind == 'fields':
        values = QUICK_VALUES if tier == 'quick' else list(range(256))
        corpus = structured_corpus()
        n = nt = k = 0
        sample = None
        for cname, body in corpus:
            for pos, data in field_mutations(body, values):
                k += 1
                if k % spec['parts'] != spec['part']:
                    continue
                rng = in_range(data)
                for name in UPDATE_ENTRY:
                    for sig, detail in call(name, data, col):
                        col.fail(sig, {'decoder': name, 'data': data.hex()}, detail)
                    n += 1
                    nt += 1 if rng else 0
                if sample is None and rng:
                    sample = {'decoder': UPDATE_ENTRY[0], 'data': data.hex(), 'base': cname, 'position': pos}
        col.bulk(n, nt, label='field-values', sample=sample)
    elif kind == 'long':
        # long regular inputs (the shapes that make a decoder rescan its input): every filler pattern at 1024 and 4096 octets,
        # bare and behind a few short prefixes, through every decoder
        names = decoder_groups(spec['ngroups'])[spec['group']]
        n = 0
        for name in names:
            for ln in (1024, 4096):
                for fill in FILLERS + [lambda m: (b'\x18\x00\x00\x10' * m)[:m], lambda m: (b'\x00\x00\x10' * m)[:m],
                                       lambda m: (b'\x01\x00\x04\x00\x00\x00\x00' * m)[:m]]:
                    for pre in (b'', b'\x00', b'\x00\x01', b'\xff\xff'):
                        data = (pre + fill(ln))[:ln]
                        for sig, detail in call(name, data, col):
                            col.fail(sig, {'decoder': name, 'data': data.hex()}, detail)
                        n += 1
        # a valid encoding repeated up to 4096 octets (short unit-test vectors; all of them in the thorough tier)
        vecs = [v for v in vectors.vectors() if len(v) <= (12 if tier == 'quick' else 64)]
        for name in names:
            for v in vecs:
                data = (v * (4096 // len(v) + 1))[:4096]
                for sig, detail in call(name, data, col):
                    col.fail(sig, {'decoder': name, 'data': data.hex()}, detail)
                n += 1
        col.bulk(n, n, label='long-patterns', sample={'decoder': names[0], 'data': (FILLERS[3](64)).hex() + '...'})
    elif kind == 'text':
        # text-like values of growing length (names, host names, almost-host-names) through every decoder: the line-event
        # budget does not see work done inside C code (a regular expression that backtracks, say), so here the processor
        # time of the call is measured as well; lengths grow in small steps so that an exponential blow-up is noticed
        # while a call still returns
        import time as _time
        names = sorted(DECODERS)[spec['part']::spec['parts']]
        n = 0
        for name in names:
            for pi, pat in enumerate(TEXT_PATTERNS):
                for ln in TEXT_LENGTHS:
                    data = pat(ln)
                    t0 = _time.process_time()
                    res = call(name, data, col)
                    dt = _time.process_time() - t0
                    n += 1
                    for sig, detail in res:
                        col.fail(sig, {'decoder': name, 'data': data.hex()}, detail)
                    if dt > CPU_LIMIT:
                        col.fail('cpu-time@%s' % name.split('/')[0], {'decoder': name, 'data': data.hex(), 'cpu_limit': CPU_LIMIT},
                                 '%s took %.1f s of processor time on %d octets (%r...)' % (name, dt, len(data), data[:40]))
                        break        # longer values of this pattern would not come back
        col.bulk(n, n, label='text-values', sample={'decoder': names[0], 'data': TEXT_PATTERNS[0](24).hex()})
    elif kind == 'bigfield':
        # one field of every kind filled to (almost) the whole message, next to an attribute the decoder refuses: the call
        # still returns a result with the sub-error (whatever the decoder does with the partial result must cope with its size)
        n = 0
        sample = None
        jobs = list(big_field_updates())
        for label, body in jobs[spec['part']::spec['parts']]:
            for sig, detail in call('Update.parse', body, col):
                col.fail(sig, {'decoder': 'Update.parse', 'data': body.hex()}, detail)
            n += 1
            sample = sample or {'decoder': 'Update.parse', 'what': label, 'data': body[:48].hex() + '...'}
        col.bulk(n, n, label='big-field+error', sample=sample)
    elif kind == 'towers':
        # a TLV nested inside itself as deep as 4000 octets allow (work must stay linear in the input): every registered
        # link-state / prefix-SID TLV type x the number of fixed octets in front of its sub-TLVs x innermost value
        PRE = [0, 1, 2, 3, 4, 6, 7, 8, 12, 16, 20, 22, 24, 32]
        jobs = []
        for tc in sorted(LinkState.registered_tlvs):
            for pre in PRE:
                jobs.append(('ls', tc, pre))
        for tc in sorted(BGPPrefixSID.registered_tlvs):
            for pre in PRE:
                jobs.append(('sid', tc, pre))
        n = 0
        sample = None
        for kind_, tc, pre in jobs[spec['part']::spec['parts']]:
            for inner in (None, b'', b'\x00', b'\x00\x00', b'\x00' * 5):
                for limit in (4000, 600):
                    # innermost: nothing at all, or the same TLV with a value cut short (no fixed octets)
                    if inner is None:
                        v = b''
                    elif kind_ == 'ls':
                        v = struct.pack('!HH', tc, len(inner)) + inner
                    else:
                        v = struct.pack('!BH', tc, len(inner)) + inner
                    while True:
                        if kind_ == 'ls':
                            nv = struct.pack('!HH', tc, pre + len(v)) + b'\x00' * pre + v
                        else:
                            nv = struct.pack('!BH', tc, pre + len(v)) + b'\x00' * pre + v
                        if len(nv) > limit:
                            break
                        v = nv
                    if kind_ == 'ls':
                        targets = [('LinkState.unpack/pro=2', v), ('LinkState.unpack/pro=None', v),
                                   ('Update.parse', rc.update_body(attrs=rc.a_unknown(29, v, flags=0x80, ext=True)))]
                    else:
                        targets = [('BGPPrefixSID.unpack', v),
                                   ('Update.parse', rc.update_body(attrs=rc.a_unknown(40, v, flags=0xC0, ext=True)))]
                    for name, data in targets:
                        for sig, detail in call(name, data, col):
                            col.fail(sig, {'decoder': name, 'data': data.hex()}, detail)
                        n += 1
                    if sample is None:
                        sample = {'decoder': targets[0][0], 'data': v[:80].hex() + '...', 'type': tc, 'fixed-octets': pre}
        col.bulk(n, n, label='tlv-towers', sample=sample)
    elif kind == 'fields2':
        corpus = [b for _, b in structured_corpus()]
        strat = st.tuples(st.sampled_from(UPDATE_ENTRY), st.sampled_from(corpus), st.lists(
            st.tuples(st.integers(0, 4095), st.one_of(st.sampled_from(QUICK_VALUES), st.integers(0, 255))),
            min_size=2, max_size=4))

        def body2(t):
            name, base, muts = t
            b = bytearray(base)
            for pos, val in muts:
                b[pos % len(b)] = val
            data = bytes(b)
            case = {'decoder': name, 'data': data.hex()}
            res = call(name, data, col)
            col.case(case, in_range(data) and data != base, labels=['field-pairs'])
            for sig, detail in res:
                col.fail(sig, case, detail)
        hyp_run(col, strat, body2, seed, spec['examples'])
    elif kind == 'three':
        names = ['LinkState.unpack/pro=2', 'BGPPrefixSID.unpack', 'BGPLS.parse', 'EVPN.parse', 'Open.parse/params',
                 'Open.parse/caps', 'IPv4FlowSpec.parse', 'IPv6FlowSpec.parse', 'ASPath.parse', 'Update.parse_attributes',
                 'IPv6Unicast.parse', 'IPv4MPLSVPN.parse', 'IPv4LabeledUnicast.parse', 'lstlv/1034', 'lstlv/1036']
        n = 0
        for a in range(spec['part'], 256, spec['parts']):
            for b in range(256):
                for c in range(256):
                    data = bytes([a, b, c])
                    for name in names:
                        for sig, detail in call(name, data, col):
                            col.fail(sig, {'decoder': name, 'data': data.hex()}, detail)
                        n += 1
        col.bulk(n, n, label='three-octets')
    elif kind == 'random':
        names = decoder_groups(spec['ngroups'])[spec['group']]
        vecs = vectors.vectors()
        strat = st.tuples(st.sampled_from(names), st.one_of(
            st.binary(max_size=64), st.binary(min_size=64, max_size=4096), tlv_soup, update_soup,
            st.tuples(st.sampled_from(vecs), st.binary(max_size=8), st.integers(0, 64)).map(
                lambda t: t[0][:t[2]] + t[1] + t[0][t[2]:])))

        def body(t):
            name, data = t
            case = {'decoder': name, 'data': data.hex()}
            res = call(name, data, col)
            col.case(case, len(data) >= 3, labels=['random:' + name.split('/')[0]])
            for sig, detail in res:
                col.fail(sig, case, detail)
        hyp_run(col, strat, body, seed, spec['examples'] * len(names))
    else:
        raise ValueError(kind)


def replay(case):
    budget.enable()
    if case.get('cpu_limit'):
        import time as _time
        t0 = _time.process_time()
        res = call(case['decoder'], bytes.fromhex(case['data']))
        dt = _time.process_time() - t0
        return res + ([('cpu-time@%s' % case['decoder'].split('/')[0], '%.1f s of processor time' % dt)] if dt > case['cpu_limit'] else [])
    return call(case['decoder'], bytes.fromhex(case['data']))


# ------------------------------------------------------------------------------------------ atheris
_NAMES = None


def fuzz_one(data):
    """atheris target body: first octet selects the decoder"""
    global _NAMES
    if _NAMES is None:
        _NAMES = sorted(DECODERS)
    if not data:
        return []
    name = _NAMES[data[0] % len(_NAMES)]
    return call(name, bytes(data[1:]))


def fuzz_case(data):
    name = sorted(DECODERS)[data[0] % len(DECODERS)] if data else sorted(DECODERS)[0]
    return {'decoder': name, 'data': bytes(data[1:]).hex()}
