"""C06 - UPDATE encode/decode round trip for IPv4 unicast and the standard attributes.

Oracle: Update.parse(Update.construct(x)) == x exactly (attr key set and values, nlri, withdraw,
sub_error None), modulo the documented representation: tuple == list, communities in the decoder's
text form (expected text produced here from the numeric value, not by yabgp).
"""
import ipaddress
import struct

from hypothesis import strategies as st

from vlib import env
env.install()

from vlib import refcodec as rc  # noqa: E402
from vlib import strategies as vs  # noqa: E402
from vlib.runner import hyp_run  # noqa: E402
from vlib.util import diff_path, exc_sig, norm  # noqa: E402

from yabgp.message.update import Update  # noqa: E402

PROPERTY = 'C06'
RULE = ('UPDATE dicts: withdraw-only / announce / announce+withdraw, IPv4 prefixes of every length 0..32, attribute '
        'subsets in random order always containing ORIGIN/AS_PATH/NEXT_HOP when prefixes are announced, integer fields '
        'at 0,1,2^15,2^16-1,2^16,2^31,2^32-1, AS_PATH of all four segment types across the 255-octet boundary, all '
        'well-known community names, every extended-community kind the encoder accepts, large communities to 2^32-1, '
        '2- and 4-octet AS mode; the same cases (without extended communities) requested through POST /send/update on '
        'Established eBGP / iBGP sessions in both AS modes, decoding what was written to the peer, plus the grid session '
        'kind x LOCAL_PREF x MED over 7 boundary values. Non-trivial = >= 2 prefixes, or a prefix length that is 0, 32 or not a multiple of 8, '
        'or >= 4 attributes, or a boundary integer; distinct by canonical JSON.')
ASSUMPTIONS = [
    'a construct() exception is accepted only when a list-valued attribute exceeds 255 octets (the encoder documents '
    'no extended length for them); anything else the generator produces is in range',
    'color-00/01/10/11 inputs are expected back as color:<n> (the text form has no place for the CO bits)',
    'traffic-rate values are integers exactly representable as IEEE-754 single precision',
    'via REST: the API takes a request iff it has (attributes and NLRI) or withdrawals, and on iBGP sessions adds the '
    'documented default LOCAL_PREF 100 when none is given (C16); refused requests outside that domain are not cases',
]
EXHAUSTIVE = {'quick': False, 'thorough': False}

BOUNDARY = {0, 1, 2 ** 15, 2 ** 16 - 1, 2 ** 16, 2 ** 31, 2 ** 32 - 1}


# ------------------------------------------------------------------------------------------ ext communities
def _f32(v):
    return struct.unpack('!f', struct.pack('!f', v))[0]


def ec_expected(item):
    """construct-side item -> decoder text"""
    k = item[0]
    if k in (2, 258, 514):
        return 'route-target:%s' % item[1]
    if k in (3, 259, 515):
        return 'route-origin:%s' % item[1]
    if k == 32776:
        return 'redirect-vrf:%s' % item[1]
    if k == 2048:
        return 'redirect-nexthop:%s:%s' % (item[1], item[2])
    if k == 32777:
        return 'traffic-marking-dscp:%s' % item[1]
    if k == 32774:
        return 'traffic-rate:%s' % item[1]
    if k in (779, 51052544, 51068928, 51085312, 51101696):
        return 'color:%s' % item[1]
    if k == 780:
        return 'encapsulation:%s' % item[1]
    if k == 1538:
        return 'es-import:%s' % item[1]
    if k == 1539:
        return 'router-mac:%s' % item[1]
    if k == 1537:
        return 'esi-label:%s:%s' % (item[1], item[2])
    if k == 1536:
        return 'mac-mobility:%s:%s' % (item[1], item[2])
    if k == 16388:
        return 'dmzlink-bw:%s' % item[1]
    if k == 32775:
        return 'traffic-action:S:%s,T:%s' % (item[1].get('s', 0), item[1].get('t', 0))
    raise ValueError(item)


EC_NAME = {2: 'rt0', 258: 'rt1', 514: 'rt2', 3: 'ro0', 259: 'ro1', 515: 'ro2', 32776: 'redirect-vrf',
           2048: 'redirect-nexthop', 32777: 'traffic-marking', 32774: 'traffic-rate', 779: 'color', 51052544: 'color-00',
           51068928: 'color-01', 51085312: 'color-10', 51101696: 'color-11', 780: 'encapsulation', 1538: 'es-import',
           1539: 'router-mac', 1537: 'esi-label', 1536: 'mac-mobility', 16388: 'dmzlink-bw', 32775: 'traffic-action'}

rate_int = st.one_of(st.sampled_from([0, 1, 1000, 2 ** 24, 2 ** 24 - 1, 2 ** 31]),
                     st.integers(0, 2 ** 31).map(lambda v: int(_f32(float(v)))))


def _pair(a, b):
    return st.tuples(a, b).map(lambda t: '%s:%s' % t)


ext_item = st.one_of(
    _pair(vs.u16, vs.u32).map(lambda s: [2, s]),
    _pair(vs.ipv4_addr, vs.u16).map(lambda s: [258, s]),
    _pair(vs.u32, vs.u16).map(lambda s: [514, s]),
    _pair(vs.u16, vs.u32).map(lambda s: [3, s]),
    _pair(vs.ipv4_addr, vs.u16).map(lambda s: [259, s]),
    _pair(vs.u32, vs.u16).map(lambda s: [515, s]),
    _pair(vs.u16, vs.u32).map(lambda s: [32776, s]),
    st.tuples(vs.ipv4_addr, st.sampled_from([0, 1, 65535])).map(lambda t: [2048, t[0], t[1]]),
    st.integers(0, 255).map(lambda v: [32777, v]),
    _pair(vs.u16, rate_int).map(lambda s: [32774, s]),
    st.tuples(st.sampled_from([779, 51052544, 51068928, 51085312, 51101696]), vs.u32).map(list),
    vs.u32.map(lambda v: [780, v]),
    vs.mac_text().map(lambda m: [1538, m]),
    vs.mac_text().map(lambda m: [1539, m]),
    st.tuples(st.sampled_from([0, 1, 255]), vs.label).map(lambda t: [1537, t[0], t[1]]),
    st.tuples(st.sampled_from([0, 1, 255]), vs.u32).map(lambda t: [1536, t[0], t[1]]),
    _pair(vs.u16, vs.u32).map(lambda s: [16388, s]),
    st.tuples(st.integers(0, 1), st.integers(0, 1)).map(lambda t: [32775, {'s': t[0], 't': t[1]}]),
)


# ------------------------------------------------------------------------------------------ attributes
WK_NAMES = sorted(rc.WELL_KNOWN_COMMUNITIES.values())
WK_BY_NAME = {v: k for k, v in rc.WELL_KNOWN_COMMUNITIES.items()}


def community_value(text):
    if text in WK_BY_NAME:
        return WK_BY_NAME[text]
    a, b = text.split(':')
    return (int(a) << 16) | int(b)


community_in = st.one_of(
    st.sampled_from(WK_NAMES),
    st.sampled_from(sorted(rc.WELL_KNOWN_COMMUNITIES)).map(lambda v: '%d:%d' % (v >> 16, v & 0xFFFF)),
    st.tuples(vs.u16, vs.u16).map(lambda t: '%d:%d' % t),
)


def asn_for(asn4):
    return vs.asn4 if asn4 else vs.asn2


@st.composite
def as_path(draw, asn4):
    big = draw(st.integers(0, 7)) == 0
    nseg = draw(st.integers(0, 4))
    segs = []
    for _ in range(nseg):
        n = draw(st.integers(120, 135) if big else st.integers(0, 6))
        if big and not asn4:
            n = draw(st.integers(120, 135))
        segs.append([draw(st.integers(1, 4)), draw(st.lists(asn_for(asn4), min_size=n, max_size=n))])
        big = False
    return segs


@st.composite
def attrs(draw, asn4):
    a = {}
    a['1'] = draw(st.integers(0, 2))
    a['2'] = draw(as_path(asn4))
    a['3'] = draw(vs.ipv4_host)
    opt = draw(st.sets(st.sampled_from([4, 5, 6, 7, 8, 9, 10, 16, 32]), max_size=9))
    single = draw(st.integers(0, 4)) == 0
    if single and opt:
        opt = {sorted(opt)[0]}
    for c in sorted(opt):
        if c in (4, 5):
            a[str(c)] = draw(vs.u32)
        elif c == 6:
            a['6'] = ''
        elif c == 7:
            a['7'] = [draw(asn_for(asn4)), draw(vs.ipv4_addr)]
        elif c == 8:
            n = draw(st.one_of(st.integers(0, 5), st.integers(60, 66)))
            a['8'] = draw(st.lists(community_in, min_size=n, max_size=n))
        elif c == 9:
            a['9'] = draw(vs.ipv4_addr)
        elif c == 10:
            n = draw(st.one_of(st.integers(0, 4), st.integers(62, 65)))
            a['10'] = draw(st.lists(vs.ipv4_addr, min_size=n, max_size=n))
        elif c == 16:
            n = draw(st.one_of(st.integers(1, 5), st.integers(30, 33)))
            a['16'] = draw(st.lists(ext_item, min_size=n, max_size=n))
        elif c == 32:
            n = draw(st.one_of(st.integers(0, 4), st.integers(20, 22)))
            a['32'] = draw(st.lists(st.tuples(vs.u32, vs.u32, vs.u32).map(lambda t: '%d:%d:%d' % t),
                                    min_size=n, max_size=n))
    order = draw(st.permutations(sorted(a, key=int)))
    return a, [int(x) for x in order]


prefix_list = st.one_of(
    st.lists(vs.prefix4(), min_size=1, max_size=6),
    st.lists(vs.prefix4(st.sampled_from([0, 1, 7, 8, 9, 15, 16, 17, 23, 24, 25, 31, 32])), min_size=1, max_size=4),
    st.lists(vs.prefix4(), min_size=20, max_size=40),
)


@st.composite
def update_case(draw):
    asn4 = draw(st.booleans())
    shape = draw(st.sampled_from(['announce', 'announce', 'withdraw', 'both', 'withdraw+attrs', 'attrs-only']))
    case = {'asn4': asn4, 'attr': {}, 'order': [], 'nlri': [], 'withdraw': []}
    if shape in ('announce', 'both', 'withdraw+attrs', 'attrs-only'):
        case['attr'], case['order'] = draw(attrs(asn4))
    if shape in ('announce', 'both'):
        case['nlri'] = draw(prefix_list)
    if shape in ('withdraw', 'both', 'withdraw+attrs'):
        case['withdraw'] = draw(prefix_list)
    return case


# ------------------------------------------------------------------------------------------ oracle
def to_msg(case):
    attr = {}
    for code in case['order']:
        v = case['attr'][str(code)]
        if code == 2:
            v = [(s[0], list(s[1])) for s in v]
        elif code == 7:
            v = (v[0], v[1])
        attr[code] = v
    return {'attr': attr, 'nlri': list(case['nlri']), 'withdraw': list(case['withdraw'])}


def expected(case):
    exp = {}
    for k, v in case['attr'].items():
        code = int(k)
        if code == 8:
            v = [rc.community_text(community_value(t)) for t in v]
        elif code == 16:
            v = [ec_expected(it) for it in v]
        exp[code] = v
    return {'attr': exp, 'nlri': list(case['nlri']), 'withdraw': list(case['withdraw'])}


LIST_ATTR_UNIT = {8: 4, 10: 4, 16: 8, 32: 12}


def oversized(case):
    for code, unit in LIST_ATTR_UNIT.items():
        v = case['attr'].get(str(code))
        if v is not None and len(v) * unit > 255:
            return code
    return None


def check_case(case):
    msg = to_msg(case)
    asn4 = case['asn4']
    try:
        raw = Update.construct(msg, asn4)
    except Exception as e:
        big = oversized(case)
        if big is not None:
            return 'rejected', []
        return 'fail', [('construct-exception:' + exc_sig(e), repr(e))]
    if not isinstance(raw, (bytes, bytearray)):
        return 'fail', [('construct-returns:%s' % type(raw).__name__, 'Update.construct returned %r' % (raw,))]
    # the octets are a function of the value: encoding the same object once more gives the same message (an encoder that
    # rewrites its argument, or remembers something from the call before, does not)
    try:
        again = Update.construct(msg, asn4)
    except Exception as e:
        again = repr(e)
    if again != raw:
        return 'fail', [('construct-not-repeatable', 'first %s, second %s' % (bytes(raw).hex()[:200], again.hex()[:200] if isinstance(again, (bytes, bytearray)) else again))]
    try:
        frames = rc.split_frames(raw)
        assert len(frames) == 1 and frames[0][0] == rc.UPDATE
    except (rc.WalkError, AssertionError) as e:
        return 'fail', [('construct-unframed', str(e))]
    body = frames[0][1]
    try:
        got = Update.parse(None, body, asn4)
    except Exception as e:
        return 'fail', [('parse-exception:' + exc_sig(e), repr(e))]
    out = []
    exp = expected(case)
    got_attr = got.get('attr') or {}
    attr_aborted = False
    if got.get('sub_error'):
        # the attribute that made the decoder give up is the first one (in wire order) that is missing
        culprit = next((c for c in case['order'] if c not in got_attr), None)
        feat = '-'
        if culprit == 16:
            feat = 'kinds=' + '+'.join(sorted(set(EC_NAME.get(i[0], '?') for i in case['attr']['16'])))
        out.append(('sub-error:%s:attr%s:%s' % (got.get('sub_error'), culprit, feat),
                    'sub_error=%r on own encoding %s' % (got.get('sub_error'), body.hex()[:200])))
        attr_aborted = culprit is not None
    for part in ('nlri', 'withdraw'):
        dp = diff_path(exp[part], got.get(part))
        if dp:
            out.append(('mismatch:%s%s:%s' % (part, dp, _prefix_feature(exp[part], got.get(part), bool(case['attr']))),
                        '%s: expected %r got %r' % (part, exp[part], got.get(part))))
    if attr_aborted:
        return 'fail', out
    if set(exp['attr']) != set(got_attr):
        out.append(('mismatch:attr-keys:missing=%s,extra=%s' % (sorted(set(exp['attr']) - set(got_attr)),
                                                                 sorted(set(got_attr) - set(exp['attr']))),
                    'expected attributes %r got %r' % (sorted(exp['attr']), sorted(got_attr))))
    for code in sorted(set(exp['attr']) & set(got_attr)):
        dp = diff_path(exp['attr'][code], got_attr[code])
        if dp:
            out.append(('mismatch:attr%d%s:%s' % (code, dp, _attr_feature(code, case, exp['attr'][code], got_attr[code])),
                        'attr %d: expected %r got %r' % (code, exp['attr'][code], got_attr[code])))
    return ('fail' if out else 'ok'), out


def _feature(case):
    f = []
    if case['withdraw'] and case['attr']:
        f.append('withdraw+attr')
    if any(p.endswith('/0') for p in case['nlri'] + case['withdraw']):
        f.append('has-/0')
    return ','.join(f) or '-'


def _prefix_feature(exp, got, has_attr):
    if not got and exp:
        return 'dropped' + (',with-attrs' if has_attr else '')
    if any(p.endswith('/0') for p in exp):
        return 'has-/0'
    return '-'


def _attr_feature(code, case, exp, got):
    exp, got = norm(exp), norm(got)
    if code in (8, 16, 32) and isinstance(got, list) and len(got) == len(exp):
        for i, (a, b) in enumerate(zip(exp, got)):
            if a != b:
                if code == 16:
                    return EC_NAME.get(case['attr']['16'][i][0], '?')
                if code == 8:
                    src = case['attr']['8'][i]
                    return 'name:' + src if src in WK_BY_NAME else 'numeric'
                if code == 32:
                    return '>=2^31' if any(int(x) >= 2 ** 31 for x in a.split(':')) else 'small'
    if code == 16:
        return 'kinds=' + '+'.join(sorted(set(EC_NAME.get(i[0], '?') for i in case['attr']['16'])))
    return '-'


def nontrivial(case):
    pf = case['nlri'] + case['withdraw']
    if len(pf) >= 2 or len(case['attr']) >= 4:
        return True
    if any(int(p.split('/')[1]) in (0, 32) or int(p.split('/')[1]) % 8 for p in pf):
        return True
    for k in ('4', '5'):
        if case['attr'].get(k) in BOUNDARY:
            return True
    return False


# ------------------------------------------------------------------------------------------ shards
def shards(tier):
    per = 400 if tier == 'quick' else 19000
    out = [{'name': 'updates-%d' % i, 'kind': 'hyp', 'examples': per, 'hypothesis': True} for i in range(15)]
    out.append({'name': 'prefix-grid', 'kind': 'grid'})
    out += [{'name': 'rest-%d' % i, 'kind': 'rest', 'examples': 250 if tier == 'quick' else 6000, 'hypothesis': True}
            for i in range(4 if tier == 'quick' else 8)]
    out.append({'name': 'rest-grid', 'kind': 'restgrid'})
    return out


# ---- the same round trip for UPDATEs requested through the REST API on an Established session -------
NUM_EDGE = st.one_of(st.sampled_from([0, 0, 1, 100, 2 ** 31, 2 ** 32 - 1]), vs.u32)


@st.composite
def rest_case_strategy(draw):
    case = draw(update_case())
    case['attr'].pop('16', None)          # the REST text forms of extended communities are C17's subject
    case['order'] = [c for c in case['order'] if c != 16]
    for k in ('4', '5'):
        if k in case['attr'] and draw(st.booleans()):
            case['attr'][k] = draw(NUM_EDGE)
    case['ibgp'] = draw(st.booleans())
    case['via'] = 'rest'
    return case


def rest_check(case):
    from vlib.props import c16
    from vlib import session as ss
    sim = c16.make_state('ESTABLISHED', ibgp=case['ibgp'], as4=case['asn4'])
    if sim.state != 'ESTABLISHED':
        return 'fail', [('harness:not-established', sim.state)]
    req = {}
    if case['attr']:
        req['attr'] = {str(c): case['attr'][str(c)] for c in case['order']}
    if case['nlri']:
        req['nlri'] = list(case['nlri'])
    if case['withdraw']:
        req['withdraw'] = list(case['withdraw'])
    mark = sim.mark()
    code, body = sim.rest('POST', '/v1/peer/%s/send/update' % c16.PEER, json_body=req)
    sim.reactor.settle(fire_due=True)
    ok = code == 200 and isinstance(body, dict) and body.get('status') is True
    if not ok:
        # the REST API takes an UPDATE request iff it has (attributes and NLRI) or withdrawals (api/v1.py)
        if oversized(case) is not None or not ((req.get('attr') and req.get('nlri')) or req.get('withdraw')):
            return 'rejected', []
        return 'fail', [('rest:refused:%s' % code, 'request %r answered %s %r' % (req, code, body))]
    try:
        frames = [f for f in ss.frames_written(sim.since(mark)) if f[1] == rc.UPDATE]
    except rc.WalkError as e:
        return 'fail', [('rest:unframed', str(e))]
    if len(frames) != 1:
        return 'fail', [('rest:frames=%d' % len(frames), 'status true but %d UPDATE frames written' % len(frames))]
    try:
        got = Update.parse(None, frames[0][2], case['asn4'])
    except Exception as e:
        return 'fail', [('rest:parse-exception:' + exc_sig(e), repr(e))]
    exp = expected(case)
    if case['ibgp'] and exp['attr'] and 5 not in exp['attr']:
        exp['attr'][5] = 100           # the documented default LOCAL_PREF on iBGP sessions
    out = []
    if got.get('sub_error'):
        return 'fail', [('rest:sub-error:%s' % got.get('sub_error'), 'own encoding %s' % frames[0][2].hex()[:200])]
    for part in ('nlri', 'withdraw'):
        dp = diff_path(exp[part], got.get(part))
        if dp:
            out.append(('rest:mismatch:%s%s' % (part, dp), '%s: requested %r decoded %r' % (part, exp[part], got.get(part))))
    got_attr = got.get('attr') or {}
    if set(exp['attr']) != set(got_attr):
        out.append(('rest:mismatch:attr-keys:missing=%s,extra=%s' % (sorted(set(exp['attr']) - set(got_attr)),
                                                                      sorted(set(got_attr) - set(exp['attr']))),
                    'requested %r decoded %r' % (sorted(exp['attr']), sorted(got_attr))))
    for code_ in sorted(set(exp['attr']) & set(got_attr)):
        dp = diff_path(exp['attr'][code_], got_attr[code_])
        if dp:
            out.append(('rest:mismatch:attr%d%s' % (code_, dp),
                        'attr %d: requested %r decoded %r' % (code_, exp['attr'][code_], got_attr[code_])))
    return ('fail' if out else 'ok'), out


BASE_ATTR = {'1': 0, '2': [[2, [65001, 65002]]], '3': '10.0.0.1'}


def run_shard(spec, seed, col, tier):
    if spec['kind'] == 'hyp':
        def body(case):
            status, res = check_case(case)
            shape = ('both' if case['nlri'] and case['withdraw'] else 'announce' if case['nlri'] else
                     ('withdraw+attrs' if case['attr'] and case['withdraw'] else 'withdraw' if case['withdraw'] else 'attrs-only'))
            labels = ['shape:' + shape, 'asn4:%s' % case['asn4'], 'status:' + status]
            labels += ['attr:%s' % k for k in case['attr']]
            col.case(case, nontrivial(case), labels=labels)
            for sig, detail in res:
                col.fail(sig, case, detail)
        hyp_run(col, update_case(), body, seed, spec['examples'])
    elif spec['kind'] == 'restgrid':
        # every boundary value of the two 32-bit attributes on every kind of session, alone and together
        vals = [None, 0, 1, 100, 2 ** 31 - 1, 2 ** 31, 2 ** 32 - 1]
        for ibgp in (False, True):
            for asn4 in (True, False):
                for lp in vals:
                    for med in vals:
                        a = dict(BASE_ATTR)
                        order = [1, 2, 3]
                        if med is not None:
                            a['4'] = med
                            order.append(4)
                        if lp is not None:
                            a['5'] = lp
                            order.append(5)
                        case = {'asn4': asn4, 'attr': a, 'order': order, 'nlri': ['10.1.0.0/16'], 'withdraw': [],
                                'ibgp': ibgp, 'via': 'rest'}
                        status, res = rest_check(case)
                        col.case(case, True, labels=['via-rest-grid', 'ibgp:%s' % ibgp])
                        for sig, detail in res:
                            col.fail(sig, case, detail)
    elif spec['kind'] == 'rest':
        def rbody(case):
            status, res = rest_check(case)
            col.case(case, nontrivial(case) or case['ibgp'], labels=['via-rest', 'ibgp:%s' % case['ibgp'], 'asn4:%s' % case['asn4'],
                                                                     'status:' + status])
            for sig, detail in res:
                col.fail(sig, case, detail)
        hyp_run(col, rest_case_strategy(), rbody, seed, spec['examples'])
    else:
        # exhaustive: every length x 6 addresses x (alone / before / after another prefix) x (nlri / withdraw)
        addrs = [0, 0xFFFFFFFF, 0x80000000, 0x0A0B0C0D, 0x01010101, 0xC0A8FFFF]
        other = '192.0.2.0/24'
        n = 0
        for plen in range(33):
            mask = (0xFFFFFFFF << (32 - plen)) & 0xFFFFFFFF if plen else 0
            for a in addrs:
                p = '%s/%d' % (ipaddress.IPv4Address(a & mask), plen)
                for lst in ([p], [p, other], [other, p], [p, p]):
                    for where in ('nlri', 'withdraw'):
                        case = {'asn4': True, 'attr': dict(BASE_ATTR) if where == 'nlri' else {},
                                'order': [1, 2, 3] if where == 'nlri' else [], 'nlri': [], 'withdraw': []}
                        case[where] = lst
                        status, res = check_case(case)
                        n += 1
                        col.case(case, True, labels=['grid'])
                        for sig, detail in res:
                            col.fail(sig, case, detail)


def replay(case):
    if case.get('via') == 'rest':
        return rest_check(case)[1]
    return check_case(case)[1]
