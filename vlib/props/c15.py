"""C15 - list decoders are compositional; attribute order is irrelevant.

Per list kind a pool of reference-encoded elements covering every width the format allows; all
ordered pairs (and random k-tuples): decode(a||b) == decode(a) + decode(b).  UPDATEs: all
permutations of up to 5 attributes (random ones beyond) decode to the same attribute dict, and an
unknown TLV / capability / attribute inserted between known ones changes nothing else.
"""
import itertools
import struct

from hypothesis import strategies as st

from vlib import env
env.install()

from vlib import refcodec as rc  # noqa: E402
from vlib.runner import hyp_run  # noqa: E402
from vlib.util import norm  # noqa: E402

from yabgp.message.update import Update  # noqa: E402
from yabgp.message.open import Open  # noqa: E402
from yabgp.message.attribute.mpreachnlri import MpReachNLRI  # noqa: E402
from yabgp.message.attribute.linkstate.linkstate import LinkState  # noqa: E402
import yabgp.message.attribute.linkstate  # noqa: E402,F401
from yabgp.message.attribute.sr.bgpprefixsid import BGPPrefixSID  # noqa: E402
from yabgp.message.attribute.nlri.linkstate import BGPLS  # noqa: E402
from yabgp.message.attribute.nlri.evpn import EVPN  # noqa: E402
from yabgp.message.attribute.nlri.ipv4_unicast import IPv4Unicast  # noqa: E402
from yabgp.message.attribute.nlri.ipv6_unicast import IPv6Unicast  # noqa: E402
from yabgp.message.attribute.nlri.ipv4_mpls_vpn import IPv4MPLSVPN  # noqa: E402
from yabgp.message.attribute.nlri.ipv6_mpls_vpn import IPv6MPLSVPN  # noqa: E402
from yabgp.message.attribute.nlri.labeled_unicast.ipv4 import IPv4LabeledUnicast  # noqa: E402
from yabgp.message.attribute.nlri.labeled_unicast.ipv6 import IPv6LabeledUnicast  # noqa: E402
from yabgp.message.attribute.extcommunity import ExtCommunity  # noqa: E402
from yabgp.message.attribute.community import Community  # noqa: E402
from yabgp.message.attribute.largecommunity import LargeCommunity  # noqa: E402
from yabgp.message.attribute.aspath import ASPath  # noqa: E402
from yabgp.message.attribute.clusterlist import ClusterList  # noqa: E402

PROPERTY = 'C15'
RULE = ('per list kind (IPv4/IPv6 prefix lists +- add-path, labeled and VPN routes, EVPN routes, flowspec rules, communities of '
        'each kind, cluster lists, AS_PATH segments, OPEN capabilities, BGP-LS NLRIs / descriptors / attribute TLVs, '
        'Prefix-SID TLVs): all ordered pairs of pool elements and random k-tuples (k<=6); attribute permutations (all for '
        '<= 5 attributes, on a 4-octet-AS and on a 2-octet-AS session) and unknown-element insertion. Non-trivial = a pair of elements of different widths, or a permutation '
        'that moves an MP / link-state attribute; distinct by bytes.')
ASSUMPTIONS = ['elements whose single decode already raises are left out of the pools (counted in the evidence); BGP-LS / '
               'Prefix-SID TLV bodies are taken from the lengths 0..40 x filler patterns the decoder accepts on their own',
               'dict-valued decoders (OPEN capabilities, node descriptors) are compared by key-wise merge']
EXHAUSTIVE = {'quick': False, 'thorough': False}


def _v4(i):
    return '%d.%d.%d.%d' % ((i >> 24) & 255, (i >> 16) & 255, (i >> 8) & 255, i & 255)


def _p4(base, plen):
    m = (0xFFFFFFFF << (32 - plen)) & 0xFFFFFFFF if plen else 0
    return '%s/%d' % (_v4(base & m), plen)


def _p6(base, plen):
    import ipaddress
    full = 2 ** 128 - 1
    m = (full << (128 - plen)) & full if plen else 0
    return '%s/%d' % (ipaddress.IPv6Address(base & m), plen)


V6BASE = (0x20010DB8 << 96) | 0x00112233445566778899
V6B2 = 2 ** 128 - 1


def mp_flowspec(data):
    return MpReachNLRI.parse(struct.pack('!HBB', 1, 133, 0) + b'\x00' + data)['nlri']


def open_caps(data):
    body = rc.open_body(4, 65002, 90, '10.0.0.2', rc.opt_param(2, data) if data else b'')
    return Open().parse(body)['capabilities']


def merge_caps(a, b):
    out = {}
    for d in (a, b):
        for k, v in d.items():
            if k in out and isinstance(v, list) and isinstance(out[k], list):
                out[k] = out[k] + v
            else:
                out[k] = v
    return out


def lsattr(data):
    return LinkState.unpack(data=data, bgpls_pro_id=2).value


def sidattr(data):
    return BGPPrefixSID.unpack(data=data)


def bgpls_desc(nlri_type, proto):
    def f(data):
        return BGPLS.parse_nlri(bytes([proto]) + b'\x00' * 8 + data, nlri_type)[2]
    return f


def tlv(t, v, tlen=2, llen=2):
    return t.to_bytes(tlen, 'big') + len(v).to_bytes(llen, 'big') + v


def empirical_tlvs(registered, decode, hdr):
    """per registered type: the shortest and the longest body (0..40 octets, a few fillers) the decoder accepts alone"""
    fills = [lambda n: b'\x00' * n, lambda n: bytes(range(1, n + 1)), lambda n: (b'\x00\x03\x00\x01' * n)[:n]]
    pool = []
    rejected = 0
    for t in sorted(registered):
        ok = []
        for n in range(0, 41):
            for f in fills:
                e = hdr(t, f(n))
                try:
                    decode(e)
                    ok.append(e)
                    break
                except Exception:
                    rejected += 1
        if ok:
            pool.append(ok[0])
            if len(ok) > 1:
                pool.append(ok[-1])
            if len(ok) > 2:
                pool.append(ok[len(ok) // 2])
    return pool, rejected


def build_kinds():
    K = {}
    lens4 = list(range(33))
    K['ipv4-prefixes'] = (lambda d: Update.parse_prefix_list(d), [rc.prefix4(_p4(b, l)) for l in lens4 for b in (0x0A0B0C0D, 0xFFFFFFFF, 0)], 'list')
    K['ipv4-prefixes-addpath'] = (lambda d: Update.parse_prefix_list(d, True),
                                  [rc.prefix4(_p4(0xC0A80101, l), path_id=pid) for l in lens4 for pid in (0, 1, 2 ** 32 - 1)], 'list')
    K['ipv4-unicast-mp'] = (lambda d: IPv4Unicast.parse(d), [rc.prefix4(_p4(b, l)) for l in lens4 for b in (0x0A0B0C0D, 0xFFFFFFFF)], 'list')
    K['ipv6-prefixes'] = (lambda d: IPv6Unicast.parse(d), [rc.prefix6(_p6(b, l)) for l in range(129) for b in (V6BASE, V6B2)], 'list')
    K['ipv6-prefixes-addpath'] = (lambda d: IPv6Unicast.parse(d, True), [rc.prefix6(_p6(V6BASE, l), path_id=7) for l in range(129)], 'list')
    K['labeled-v4'] = (lambda d: IPv4LabeledUnicast.parse(d),
                       [rc.labeled_route(_p4(0x0A0B0C0D, l), labs) for l in lens4 for labs in ([16], [0], [1048575, 17])], 'list')
    K['labeled-v6'] = (lambda d: IPv6LabeledUnicast.parse(d),
                       [rc.labeled_route(_p6(V6BASE, l), labs) for l in range(129) for labs in ([16], [3, 17])][::2], 'list')
    K['vpnv4'] = (lambda d: IPv4MPLSVPN.parse(d),
                  [rc.vpn_route(_p4(0x0A0B0C0D, l), rc.rd(r), [lab]) for l in lens4 for r, lab in (('100:1', 16), ('1.1.1.1:2', 0), ('65536:3', 1048575))], 'list')
    K['vpnv4-withdraw'] = (lambda d: IPv4MPLSVPN.parse(d, True),
                           [rc.vpn_route(_p4(0x0A0B0C0D, l), rc.rd('100:1'), [], raw_label=rc.WITHDRAW_LABEL) for l in lens4], 'list')
    K['vpnv6'] = (lambda d: IPv6MPLSVPN.parse(d), [rc.vpn_route(_p6(V6BASE, l), rc.rd('100:1'), [16 + l]) for l in range(129)], 'list')
    e0, e3 = rc.esi(0, value=5), rc.esi(3, mac='00-11-22-33-44-55', ld=7)
    evpn = []
    for ip in (None, '10.0.0.9', '2001:db8::9'):
        evpn.append(rc.evpn_type2(rc.rd('100:1'), e0, 5, '00-11-22-33-44-55', ip, [100]))
        evpn.append(rc.evpn_type2(rc.rd('1.1.1.1:1'), e3, 0, 'AA-BB-CC-DD-EE-FF', ip, [100, 200]))
        if ip:
            evpn.append(rc.evpn_type3(rc.rd('100:1'), 9, ip))
            evpn.append(rc.evpn_type4(rc.rd('65536:1'), e3, ip))
    evpn.append(rc.evpn_type1(rc.rd('100:1'), e0, 4294967295, [0]))
    evpn.append(rc.evpn_type1(rc.rd('100:1'), rc.esi(1, mac='00-11-22-33-44-55', port_key=9), 1, [1048575]))
    evpn.append(rc.evpn_type5(rc.rd('100:1'), e0, 0, '10.1.0.0/16', '10.0.0.1', [100]))
    evpn.append(rc.evpn_type5(rc.rd('100:1'), e0, 0, '2001:db8::/32', '2001:db8::1', [100]))
    evpn.append(rc.evpn_route(9, b'\x01\x02\x03'))
    K['evpn'] = (lambda d: EVPN.parse(d), evpn, 'list')
    fs = [rc.fs_rule([rc.fs_prefix4(1, _p4(0x0A0B0C0D, l))]) for l in (0, 1, 8, 9, 24, 32)]
    fs += [rc.fs_rule([rc.fs_prefix4(2, '10.0.0.0/8'), rc.fs_component(c, rc.fs_numeric(t))])
           for c in (3, 4, 5, 6, 7, 8, 10, 11) for t in ([(0, '=', 6)], [(0, '>=', 80), (0, '<=', 65535)], [(0, '=', 2 ** 24 + 5)])]
    fs.append(rc.fs_rule([rc.fs_component(4, rc.fs_numeric([(0, '=', 2 ** 24 + i) for i in range(60)]))]))
    K['flowspec-rules'] = (mp_flowspec, fs, 'list')
    K['communities'] = (lambda d: Community.parse(d), [struct.pack('!I', v) for v in
                                                       sorted(rc.WELL_KNOWN_COMMUNITIES) + [0, 1, 65535, 65536, 0xFFFFFFFF, 0x00640064]], 'list')
    from vlib.props import c17
    import random
    ec = []
    rnd = random.Random(15)
    from hypothesis import strategies as _st  # noqa
    ec_fixed = [struct.pack('!HHI', 0x0002, 100, 200), struct.pack('!H', 0x0102) + rc.ip4('1.2.3.4') + struct.pack('!H', 9),
                struct.pack('!HIH', 0x0202, 70000, 1), struct.pack('!HHI', 0x0003, 1, 1), struct.pack('!HIH', 0x0203, 2 ** 32 - 1, 65535),
                struct.pack('!HHI', 0x030b, 0, 5), struct.pack('!HHI', 0x030c, 0, 8), struct.pack('!HHI', 0x8008, 1, 2),
                struct.pack('!H', 0x0800) + rc.ip4('9.9.9.9') + struct.pack('!H', 1), struct.pack('!HHf', 0x8006, 1, 1000.0),
                struct.pack('!HIBB', 0x8007, 0, 0, 3), struct.pack('!HIBB', 0x8009, 0, 0, 46), struct.pack('!HHI', 0x4004, 1, 9),
                struct.pack('!HBH', 0x0601, 1, 0) + b'\x00\x06\x40', struct.pack('!HBBI', 0x0600, 1, 0, 9),
                struct.pack('!H', 0x0602) + bytes(range(6)), struct.pack('!H', 0x0603) + bytes(range(6)),
                struct.pack('!HHI', 0x9999, 1, 2)]
    K['ext-communities'] = (lambda d: ExtCommunity.parse(d), ec_fixed, 'list')
    K['large-communities'] = (lambda d: LargeCommunity.parse(d), [struct.pack('!III', *t) for t in
                                                                  ((0, 0, 0), (1, 2, 3), (2 ** 32 - 1, 2 ** 31, 65536), (65536, 0, 2 ** 32 - 1))], 'list')
    K['cluster-list'] = (lambda d: ClusterList.parse(d), [rc.ip4(x) for x in ('0.0.0.0', '1.1.1.1', '255.255.255.255', '10.0.0.1')], 'list')
    for w4 in (False, True):
        segs = [rc.as_path_value([(t, asns)], w4) for t in (1, 2, 3, 4)
                for asns in ([], [1], [65535, 23456], ([4294967295, 65536] if w4 else [65534, 2]), list(range(1, 9)))]
        K['as-path-segments-%d' % (4 if w4 else 2)] = ((lambda w: lambda d: ASPath.parse(d, w))(w4), segs, 'list')
    caps = [rc.cap_mp(1, 1), rc.cap_mp(2, 128), rc.cap_mp(25, 70), rc.cap(2), rc.cap(128), rc.cap(70), rc.cap_gr(120, [(1, 1, 0x80)]),
            rc.cap_as4(65002), rc.cap_addpath([(1, 1, 3)]), rc.cap_addpath([(2, 1, 1), (1, 128, 2)]), rc.cap_extnh([(1, 1, 2)]),
            rc.cap_extnh([(1, 128, 2), (1, 4, 2)]), rc.cap_llgr([(1, 1, 0, 100)]), rc.cap_llgr([(2, 1, 0x80, 2 ** 24 - 1)]), rc.cap(131),
            rc.cap(99, b'\x01\x02'), rc.cap(200)]
    K['open-capabilities'] = (open_caps, caps, 'caps')
    # ---- BGP-LS NLRIs
    nd = tlv(256, tlv(512, struct.pack('!I', 65001)) + tlv(513, rc.ip4('1.1.1.1')) + tlv(515, bytes(range(6))))
    nd_ospf = tlv(256, tlv(512, struct.pack('!I', 65001)) + tlv(514, rc.ip4('0.0.0.0')) + tlv(515, rc.ip4('2.2.2.2')))
    rn = tlv(257, tlv(512, struct.pack('!I', 65002)) + tlv(515, bytes(range(7))))
    hdr = lambda proto: bytes([proto]) + struct.pack('!Q', 0)  # noqa: E731
    nl = [tlv(1, hdr(2) + nd), tlv(1, hdr(3) + nd_ospf),
          tlv(2, hdr(2) + nd + rn + tlv(259, rc.ip4('10.0.0.1')) + tlv(260, rc.ip4('10.0.0.2'))),
          tlv(2, hdr(2) + nd + rn + tlv(258, struct.pack('!II', 1, 2)) + tlv(263, struct.pack('!H', 2))),
          tlv(2, hdr(2) + nd + rn + tlv(261, rc.ip6('2001:db8::1')) + tlv(262, rc.ip6('2001:db8::2'))),
          tlv(3, hdr(2) + nd + tlv(265, b'\x18\x0a\x01\x01')), tlv(3, hdr(3) + nd_ospf + tlv(264, b'\x01') + tlv(265, b'\x20\x0a\x01\x01\x01')),
          tlv(4, hdr(2) + nd + tlv(265, b'\x40' + rc.ip6('2001:db8::')[:8])), tlv(6, hdr(2) + nd + tlv(518, rc.ip6('2001:db8::99'))),
          tlv(1, hdr(2) + nd + tlv(999, b'\x01\x02\x03')), tlv(77, b'\x01\x02\x03\x04')]
    # the same descriptor octets under every Protocol-ID (how a router-id is read depends on the protocol of ITS NLRI)
    for proto in (1, 3, 4, 5, 6, 7):
        nl += [tlv(1, hdr(proto) + nd), tlv(2, hdr(proto) + nd + rn + tlv(259, rc.ip4('10.0.0.1')))]
    for proto in (2, 4, 6, 7):
        nl += [tlv(1, hdr(proto) + nd_ospf)]
    K['bgpls-nlris'] = (lambda d: BGPLS.parse(d), nl, 'list')
    descs = [nd, rn, tlv(258, struct.pack('!II', 1, 2)), tlv(259, rc.ip4('10.0.0.1')), tlv(260, rc.ip4('10.0.0.2')),
             tlv(261, rc.ip6('2001:db8::1')), tlv(262, rc.ip6('2001:db8::2')), tlv(263, struct.pack('!HH', 2, 3)), tlv(264, b'\x02'),
             tlv(265, b'\x10\x0a\x01'), tlv(999, b'\x00'), tlv(1000, b'')]
    K['bgpls-descriptors'] = (bgpls_desc(2, 2), descs, 'list')
    pool, rej = empirical_tlvs(LinkState.registered_tlvs, lsattr, lambda t, v: tlv(t, v))
    pool += [tlv(60000, b'\x01\x02\x03'), tlv(60001, b'')]
    K['bgpls-attribute-tlvs'] = (lsattr, pool, 'list')
    pool2, rej2 = empirical_tlvs(BGPPrefixSID.registered_tlvs, sidattr, lambda t, v: tlv(t, v, 1, 2))
    pool2 += [tlv(200, b'\x01\x02', 1, 2), tlv(201, b'', 1, 2)]
    K['prefix-sid-tlvs'] = (sidattr, pool2, 'list')
    return K


KINDS = None


def kinds():
    global KINDS
    if KINDS is None:
        KINDS = build_kinds()
    return KINDS


def dec(f, data):
    try:
        return True, norm(f(data))
    except Exception as e:  # noqa
        return False, e


def check_tuple(kname, elems):
    f, pool, mode = kinds()[kname]
    singles = []
    for e in elems:
        ok, v = dec(f, e)
        if not ok:
            return None          # not a pool member
        singles.append(v)
    ok, whole = dec(f, b''.join(elems))
    if not ok:
        return [('%s:concatenation-raises:%s' % (kname, type(whole).__name__),
                 'elements %s decode alone, their concatenation raises %r' % ([e.hex() for e in elems], whole))]
    if mode == 'caps':
        exp = {}
        for v in singles:
            exp = merge_caps(exp, v)
    else:
        exp = []
        for v in singles:
            exp = exp + list(v)
    if exp != whole:
        how = 'fewer' if _size(whole) < _size(exp) else ('more' if _size(whole) > _size(exp) else 'different')
        if kname == 'ipv6-prefixes' and len(elems) >= 2 and elems[-1] == b'\x00' and elems[-2] == b'\x00':
            how += ':trailing-2x-::/0'
        return [('%s:not-compositional:%s' % (kname, how), 'decode(%s) = %r, separate decodings give %r'
                 % (' || '.join(e.hex() for e in elems), whole, exp))]
    return []


def _size(v):
    return len(v) if hasattr(v, '__len__') else 0


# ------------------------------------------------------------------------------------------ attributes
def attr_pool(asn4=True):
    ls = tlv(1026, b'router-1') + tlv(1028, rc.ip4('1.1.1.1')) + tlv(1158, b'\x01\x02\x03\x04\x05') + tlv(1099, b'\x01\x02\x03\x04\x05')
    return [
        (1, rc.a_origin(0)), (2, rc.a_as_path([(2, [65002, 65003])], asn4)), (3, rc.a_next_hop('10.0.0.2')), (4, rc.a_med(5)),
        (5, rc.a_local_pref(100)), (6, rc.a_atomic()), (7, rc.a_aggregator(65002, '1.1.1.1', asn4)), (8, rc.a_communities([0xFFFFFF01, 5])),
        (9, rc.a_originator('2.2.2.2')), (10, rc.a_cluster_list(['3.3.3.3'])), (16, rc.a_ext_communities([struct.pack('!HHI', 2, 1, 1)])),
        (32, rc.a_large_communities([(1, 2, 3)])), (17, rc.a_as4_path([(2, [70000])])), (18, rc.a_as4_aggregator(70000, '4.4.4.4')),
        (14, rc.a_mp_reach(2, 1, rc.ip6('2001:db8::1'), rc.prefix6('2001:db8:1::/48'))), (15, rc.a_mp_unreach(2, 1, rc.prefix6('2001:db8:2::/48'))),
        (99, rc.a_unknown(99, b'\x01\x02')), (22, rc.a_unknown(22, b'\x00\x06\x00\x00\x00' + rc.ip4('5.5.5.5'))),
        (40, rc.a_unknown(40, tlv(1, b'\x00\x00\x00\x00\x00\x00\x05', 1, 2))),
        ('ls-mp', rc.a_mp_reach(16388, 71, rc.ip4('10.0.0.2'), tlv(1, b'\x02' + b'\x00' * 8 + tlv(256, tlv(512, struct.pack('!I', 65001)))))),
        (29, rc.a_unknown(29, ls, flags=0x80)),
        ('4x', rc.a_med(7, ext=True)), ('8x', rc.a_communities([1, 2], ext=True)),
    ]


def parse_attrs(blobs, asn4=True):
    res = Update.parse(None, rc.update_body(attrs=b''.join(blobs)), asn4)
    return res.get('sub_error'), norm(res.get('attr'))


def check_perm(idxs, perm, insert_unknown=None, asn4=True):
    pool = attr_pool(asn4)
    blobs = [pool[i][1] for i in idxs]
    base_err, base = parse_attrs(blobs, asn4)
    if base_err:
        return None
    pb = [blobs[i] for i in perm]
    names = [str(pool[i][0]) for i in idxs]
    if insert_unknown is not None:
        pb = pb[:insert_unknown] + [rc.a_unknown(123, b'\xde\xad')] + pb[insert_unknown:]
    err, got = parse_attrs(pb, asn4)
    if insert_unknown is not None and got is not None:
        got = {k: v for k, v in got.items() if k != 123}
    if err or got != base:
        moved = [n for n in names if n in ('14', '15', '29', 'ls-mp')]
        return [('attribute-order:%s:%s' % ('unknown-inserted' if insert_unknown is not None else 'permuted',
                                            'mp/ls' if moved else 'plain'),
                 'attributes %r (%s-octet AS session) in order %r%s decode to %r (sub_error %r), in the original order to %r'
                 % (names, 4 if asn4 else 2, list(perm), ' with an unknown attribute inserted' if insert_unknown is not None else '', got, err, base))]
    return []


# ------------------------------------------------------------------------------------------ shards
def shards(tier):
    out = []
    for k in sorted(kinds()):
        out.append({'name': 'pairs-' + k, 'kind': 'pairs', 'k': k, 'cap': 120000 if tier == 'quick' else 10 ** 7})
    out.append({'name': 'tuples', 'kind': 'tuples', 'examples': 1500 if tier == 'quick' else 100000, 'hypothesis': True})
    out.append({'name': 'unknown-insert', 'kind': 'insert'})
    for i in range(4):
        out.append({'name': 'attr-perms-%d' % i, 'kind': 'perms', 'part': i, 'parts': 4, 'subsets': 60 if tier == 'quick' else 1500,
                    'examples': 300 if tier == 'quick' else 25000, 'hypothesis': True})
    return out


def run_shard(spec, seed, col, tier):
    kind = spec['kind']
    if kind == 'pairs':
        f, pool, mode = kinds()[spec['k']]
        good = [e for e in pool if dec(f, e)[0]]
        col.label('excluded-from-pool:' + spec['k'], len(pool) - len(good))
        pairs = list(itertools.product(range(len(good)), repeat=2))
        if len(pairs) > spec['cap']:
            step = len(pairs) // spec['cap'] + 1
            pairs = pairs[seed % step::step]
        n = nt = 0
        for i, j in pairs:
            res = check_tuple(spec['k'], [good[i], good[j]])
            n += 1
            if len(good[i]) != len(good[j]):
                nt += 1
            for sig, detail in res or []:
                col.fail(sig, {'k': spec['k'], 'elems': [good[i].hex(), good[j].hex()]}, detail)
        # an element the decoder refuses on its own is refused in company too (decode(a || e) defined while decode(e) is
        # not would make the meaning of e depend on its neighbour)
        for e in [x for x in pool if not dec(f, x)[0]]:
            for a in good[:60]:
                for whole, order in ((a + e, 'after'), (e + a, 'before')):
                    ok, v = dec(f, whole)
                    n += 1
                    if ok:
                        col.fail('%s:not-compositional:refused-alone-accepted-%s-a-neighbour' % (spec['k'], order),
                                 {'k': spec['k'], 'elems': [a.hex(), e.hex()] if order == 'after' else [e.hex(), a.hex()], 'alone': e.hex()},
                                 'decode(%s) raises, decode(%s) = %r' % (e.hex(), whole.hex(), v))
        col.bulk(n, nt, label='pairs:' + spec['k'], sample={'k': spec['k'], 'elems': [good[0].hex(), good[-1].hex()]} if good else None)
    elif kind == 'tuples':
        names = sorted(kinds())

        def body(t):
            kname, idx = t
            f, pool, mode = kinds()[kname]
            elems = [pool[i % len(pool)] for i in idx]
            res = check_tuple(kname, elems)
            if res is None:
                col.label('tuple-with-non-member')
                return
            case = {'k': kname, 'elems': [e.hex() for e in elems]}
            col.case(case, len(set(len(e) for e in elems)) > 1, labels=['tuple:' + kname])
            for sig, detail in res:
                col.fail(sig, case, detail)
        hyp_run(col, st.tuples(st.sampled_from(names), st.lists(st.integers(0, 10 ** 6), min_size=3, max_size=6)), body, seed, spec['examples'])
    elif kind == 'insert':
        for kname, unk in (('open-capabilities', rc.cap(250, b'\x09')), ('bgpls-attribute-tlvs', tlv(61000, b'\x09\x09')),
                           ('prefix-sid-tlvs', tlv(222, b'\x09', 1, 2)), ('bgpls-descriptors', tlv(1234, b'\x09')),
                           ('bgpls-nlris', tlv(88, b'\x09\x09\x09\x09'))):
            f, pool, mode = kinds()[kname]
            good = [e for e in pool if dec(f, e)[0]]
            ok_u, unk_dec = dec(f, unk)
            n = 0
            for a, b in itertools.product(good, repeat=2):
                okw, without = dec(f, a + b)
                okx, withu = dec(f, a + unk + b)
                n += 1
                if not okw:
                    continue
                bad = False
                if not okx:
                    bad = True
                elif mode == 'caps':
                    bad = {k: v for k, v in withu.items() if k not in (unk_dec or {})} != without
                else:
                    rest = [x for x in withu if not (ok_u and unk_dec and x == unk_dec[0])]
                    bad = rest != without
                if bad:
                    col.fail('%s:unknown-insert-changes-others' % kname, {'k': kname, 'elems': [a.hex(), unk.hex(), b.hex()], 'insert': True},
                             'decode(a||u||b) = %r, decode(a||b) = %r' % (withu, without))
            col.bulk(n, n, label='insert:' + kname)
    else:
        pool = attr_pool()
        n = len(pool)
        import random
        rnd = random.Random(1000 + spec['part'])      # fixed: the enumeration is the same on every run
        subsets = []
        for size in (2, 3, 4, 5):
            combos = list(itertools.combinations(range(n), size))
            rnd.shuffle(combos)
            subsets += combos[spec['part']::spec['parts']][:spec['subsets']]
        cnt = nt = 0
        for idxs in subsets:
            keys = [pool[i][0] for i in idxs]
            if (14 in keys and 'ls-mp' in keys) or (4 in keys and '4x' in keys) or (8 in keys and '8x' in keys):
                continue
            for asn4 in (True, False):
                for perm in itertools.permutations(range(len(idxs))):
                    res = check_perm(idxs, perm, asn4=asn4)
                    if res is None:
                        break
                    cnt += 1
                    if any(k in (14, 15, 29, 'ls-mp') for k in keys) or not asn4:
                        nt += 1
                    for sig, detail in res:
                        col.fail(sig, {'idxs': list(idxs), 'perm': list(perm), 'asn4': asn4}, detail)
                for pos in range(len(idxs) + 1):
                    res = check_perm(idxs, tuple(range(len(idxs))), insert_unknown=pos, asn4=asn4)
                    cnt += 1
                    for sig, detail in res or []:
                        col.fail(sig, {'idxs': list(idxs), 'perm': list(range(len(idxs))), 'insert': pos, 'asn4': asn4}, detail)
        col.bulk(cnt, nt, label='attr-permutations', sample={'idxs': list(subsets[0]), 'perm': list(range(len(subsets[0])))[::-1]} if subsets else None)

        def body(t):
            idxs, seedperm = t
            keys = [pool[i][0] for i in idxs]
            if (14 in keys and 'ls-mp' in keys) or (4 in keys and '4x' in keys) or (8 in keys and '8x' in keys):
                return
            perm = list(range(len(idxs)))
            random.Random(seedperm).shuffle(perm)
            asn4 = seedperm % 3 != 0
            res = check_perm(idxs, perm, asn4=asn4)
            if res is None:
                return
            case = {'idxs': list(idxs), 'perm': perm, 'asn4': asn4}
            col.case(case, any(k in (14, 15, 29, 'ls-mp') for k in keys), labels=['attr-random-perm', 'asn4:%s' % asn4])
            for sig, detail in res:
                col.fail(sig, case, detail)
        hyp_run(col, st.tuples(st.lists(st.integers(0, n - 1), min_size=6, max_size=12, unique=True), st.integers(0, 10 ** 6)), body, seed, spec['examples'])


def replay(case):
    if 'idxs' in case:
        return check_perm(case['idxs'], case['perm'], case.get('insert'), case.get('asn4', True)) or []
    if case.get('alone'):
        f, pool, mode = kinds()[case['k']]
        whole = b''.join(bytes.fromhex(x) for x in case['elems'])
        if not dec(f, bytes.fromhex(case['alone']))[0] and dec(f, whole)[0]:
            return [('%s:not-compositional:refused-alone-accepted-%s-a-neighbour' % (case['k'], 'after' if case['elems'][-1] == case['alone'] else 'before'), 'decode(%s) raises, decode(%s) does not' % (case['alone'], whole.hex()))]
        return []
    if case.get('insert') is True:
        f, pool, mode = kinds()[case['k']]
        a, u, b = [bytes.fromhex(x) for x in case['elems']]
        okw, without = dec(f, a + b)
        okx, withu = dec(f, a + u + b)
        ok_u, ud = dec(f, u)
        if not okw:
            return []
        if not okx:
            return [('%s:unknown-insert-changes-others' % case['k'], 'raises')]
        if mode == 'caps':
            bad = {k: v for k, v in withu.items() if k not in (ud or {})} != without
        else:
            bad = [x for x in withu if not (ok_u and ud and x == ud[0])] != without
        return [('%s:unknown-insert-changes-others' % case['k'], '%r vs %r' % (withu, without))] if bad else []
    return check_tuple(case['k'], [bytes.fromhex(x) for x in case['elems']]) or []
