"""C01 - session state machine follows the RFC 4271 profile for every event order.

Engines: (1) small-scope exhaustive breadth-first exploration of event sequences with state
de-duplication on an abstract fingerprint; (2) Hypothesis-driven deep random walks.  Oracle: the
reference model of vlib/fsm_model.py run in lock-step (state, messages, close, new attempt), plus
the Established-only-after-handshake history monitor.
"""
from hypothesis import strategies as st

from vlib.driver import Driver, run_events
from vlib.runner import hyp_run

PROPERTY = 'C01'
RULE = ('event sequences from boot over {connect ok/refused/timeout, peer OPEN valid(hold 90)/hold 0/hold 3/bad version/'
        'wrong AS/hold 1/hold 2, KEEPALIVE, UPDATE, NOTIFICATION version-error/other, ROUTE-REFRESH, bad marker, bad '
        'length, unknown type, peer close, time to next timer, manual stop/start}, only physically possible events, '
        'single-connection regime; wrong AS given in the My-AS field or only in the 4-octet-AS capability. BFS with fingerprint de-duplication + random walks + the grid NOTIFICATION error code '
        '0..255 x subcodes x data length x {OpenSent, OpenConfirm, Established} + the grid of messages shorter than their '
        'type\'s RFC minimum (OPEN < 29, UPDATE < 23, NOTIFICATION < 21, KEEPALIVE != 19). Non-trivial = sequence leaves '
        'Connect and has an event in OpenSent or later; distinct = distinct (fingerprint, event) pairs (BFS) / '
        'distinct sequences (walks).')
ASSUMPTIONS = [
    'simnet fidelity (DESIGN.md 4.1); REST calls are atomic with respect to reactor events',
    'profile of DESIGN.md 4.3: active only, no collision detection, DelayOpen off, DampPeerOscillations on; '
    'NOTIFICATION data not compared; where the RFC is silent or self-contradictory several outcomes are admissible',
    'after the first divergence from the model a sequence is not extended (later steps would be noise)',
]
EXHAUSTIVE = {'quick': False, 'thorough': False}

CONFIGS = {'quick': [{'hold': 180, 'idle_hold': 30, 'connect_retry': 60}],
           'thorough': [{'hold': 180, 'idle_hold': 30, 'connect_retry': 60},
                        {'hold': 9, 'idle_hold': 5, 'connect_retry': 60},
                        {'hold': 0, 'idle_hold': 30, 'connect_retry': 60}]}
DEPTH = {'quick': 8, 'thorough': 11}
PREFIX_LEN = 3


def replay_path(cfg, path):
    d = Driver(cfg)
    for ev in path:
        d.apply(ev)
    return d


def prefixes(cfg, n):
    """all enabled event sequences of length n from boot (run in the parent, cheap)"""
    level = [[['boot']]]
    for _ in range(n):
        nxt = []
        for p in level:
            d = replay_path(cfg, p)
            if d.failures:
                nxt.append(p)      # keep: the shard re-detects and reports it
                continue
            for ev in d.enabled():
                nxt.append(p + [ev])
        level = nxt
    # drop duplicates of failing short paths
    seen, out = set(), []
    for p in level:
        k = repr(p)
        if k not in seen:
            seen.add(k)
            out.append(p)
    return out


def shards(tier):
    out = []
    for ci, cfg in enumerate(CONFIGS[tier]):
        pf = prefixes(cfg, PREFIX_LEN)
        nshard = 12
        for i in range(nshard):
            out.append({'name': 'bfs-c%d-%d' % (ci, i), 'kind': 'bfs', 'cfg': cfg, 'prefixes': pf[i::nshard],
                        'depth': DEPTH[tier]})
    for i in range(4):
        out.append({'name': 'notification-codes-%d' % i, 'kind': 'notif', 'part': i, 'parts': 4})
    out.append({'name': 'short-messages', 'kind': 'short'})
    nw = 400 if tier == 'quick' else 12000
    for i in range(8 if tier == 'quick' else 16):
        out.append({'name': 'walks-%d' % i, 'kind': 'walk', 'examples': nw, 'hypothesis': True,
                    'steps': 60 if tier == 'quick' else 110})
    return out


def nontrivial_path(path):
    seen_ok = False
    for ev in path:
        if ev[0] == 'ok':
            seen_ok = True
        elif seen_ok and ev[0] not in ('boot',):
            return True
    return False


def bfs(spec, col):
    cfg, depth = spec['cfg'], spec['depth']
    seen = set()
    frontier = [p for p in spec['prefixes']]
    cells = set()
    pairs = 0
    level = PREFIX_LEN
    # the prefixes themselves are checked first
    nodes = []
    for p in frontier:
        d = replay_path(cfg, p)
        col.case({'cfg': cfg, 'events': p}, nontrivial_path(p), labels=['bfs-prefix'])
        cells |= d.cells
        if d.failures:
            for sig, detail in d.failures:
                col.fail(sig, {'cfg': cfg, 'events': p}, detail)
            continue
        fp = d.fingerprint()
        if fp in seen:
            continue
        seen.add(fp)
        nodes.append(p)
    while nodes and level < depth:
        nxt = []
        for p in nodes:
            d0 = replay_path(cfg, p)
            for ev in d0.enabled():
                d = replay_path(cfg, p)
                d.apply(ev)
                q = p + [ev]
                pairs += 1
                col.case({'cfg': cfg, 'events': q}, nontrivial_path(q), labels=['bfs-depth-%d' % (level + 1)])
                cells |= d.cells
                if d.failures:
                    for sig, detail in d.failures:
                        col.fail(sig, {'cfg': cfg, 'events': q}, detail)
                    continue
                fp = d.fingerprint()
                if fp in seen:
                    continue
                seen.add(fp)
                nxt.append(q)
        nodes = nxt
        level += 1
    col.notes['cells:' + spec['name']] = sorted('%s/%s' % c for c in cells)
    col.label('bfs-fingerprints', len(seen))


WEIGHTED = None


def walk_case(steps):
    return st.fixed_dictionaries({
        'cfg': st.sampled_from([{'hold': 180, 'idle_hold': 30, 'connect_retry': 60},
                                {'hold': 9, 'idle_hold': 5, 'connect_retry': 60},
                                {'hold': 0, 'idle_hold': 30, 'connect_retry': 60},
                                {'hold': 30, 'idle_hold': 1, 'connect_retry': 40},
                                {'hold': 3, 'idle_hold': 2, 'connect_retry': 60},
                                {'hold': 65535, 'idle_hold': 1, 'connect_retry': 31},
                                # every peer message arrives in 2 / 3 TCP segments / octet by octet
                                {'hold': 180, 'idle_hold': 30, 'connect_retry': 60, 'seg': 2},
                                {'hold': 9, 'idle_hold': 5, 'connect_retry': 60, 'seg': 3},
                                {'hold': 180, 'idle_hold': 30, 'connect_retry': 60, 'seg': 'bytes'}]),
        'choices': st.lists(st.integers(0, 999), min_size=steps // 2, max_size=steps)})


def pick(enabled, choice):
    """biased choice: progress events (ok, valid OPEN, KEEPALIVE, tick) get extra weight so that
    deep states are reached; everything stays a pure function of `choice`."""
    weighted = []
    for ev in enabled:
        w = 1
        if ev[0] in ('ok', 'tick'):
            w = 4
        elif ev[0] == 'ka' or (ev[0] == 'open' and ev[1] in ('valid', 'h3', 'h0')):
            w = 3
        elif ev[0] == 'upd':
            w = 2
        weighted += [ev] * w
    return weighted[choice % len(weighted)]


def run_walk(case):
    d = Driver(case['cfg'])
    d.apply(['boot'])
    for ch in case['choices']:
        if d.failures:
            break
        d.apply(pick(d.enabled(), ch))
    return d


def run_shard(spec, seed, col, tier):
    if spec['kind'] == 'bfs':
        bfs(spec, col)
    elif spec['kind'] == 'short':
        # RFC 4271 6.1: OPEN < 29, UPDATE < 23, NOTIFICATION < 21, KEEPALIVE != 19 octets -> Bad Message Length
        cfg = CONFIGS['quick'][0]
        reach = {'OPENSENT': [['boot'], ['ok']], 'OPENCONFIRM': [['boot'], ['ok'], ['open', 'valid', 90]],
                 'ESTABLISHED': [['boot'], ['ok'], ['open', 'valid', 90], ['ka']]}
        for mtype, lens in ((1, range(0, 10)), (2, range(0, 4)), (3, range(0, 2)), (4, (1, 2, 5, 100, 4077))):
            for n in lens:
                for state in sorted(reach):
                    path = reach[state] + [['bad_len', mtype, n]]
                    d = replay_path(cfg, path)
                    case = {'cfg': cfg, 'events': path}
                    col.case(case, True, labels=['short-message-grid', 'state:' + state])
                    for sig, detail in d.failures:
                        col.fail(sig, case, detail)
    elif spec['kind'] == 'notif':
        # every NOTIFICATION error code x a set of subcodes x data lengths in each state with a live connection:
        # the RFC reaction (no reply, close, Idle) does not depend on the code
        cfg = CONFIGS['quick'][0]
        reach = {'OPENSENT': [['boot'], ['ok']], 'OPENCONFIRM': [['boot'], ['ok'], ['open', 'valid', 90]],
                 'ESTABLISHED': [['boot'], ['ok'], ['open', 'valid', 90], ['ka']]}
        subs = [0, 1, 2, 3, 4, 5, 6, 7, 8, 9, 10, 11, 12, 127, 128, 255]
        k = 0
        for code in range(256):
            for sub in (subs if code < 16 or tier == 'thorough' else [0, 1, 255]):
                for data in ('', '0004', '00' * 21, 'ff', '03fffefd', '05c3a9c3a9c3', '80' * 130):
                    for state in ('OPENSENT', 'OPENCONFIRM', 'ESTABLISHED'):
                        k += 1
                        if k % spec['parts'] != spec['part'] or (code, sub) == (2, 1):
                            continue
                        path = reach[state] + [['notif', 'other', code, sub, data]]
                        d = replay_path(cfg, path)
                        case = {'cfg': cfg, 'events': path}
                        col.case(case, True, labels=['notification-code-grid', 'state:' + state])
                        for sig, detail in d.failures:
                            col.fail(sig, case, detail)
    else:
        def body(case):
            d = run_walk(case)
            explicit = {'cfg': case['cfg'], 'events': d.history}
            col.case(explicit, nontrivial_path(d.history), labels=['walk', 'walk-len-%d' % (len(d.history) // 20 * 20),
                                                                   'walk-ended:' + d.sim.state])
            for c in d.cells:
                col.label('cell:%s/%s' % c)
            for sig, detail in d.failures:
                col.fail(sig, explicit, detail)
        hyp_run(col, walk_case(spec['steps']), body, seed, spec['examples'])


def replay(case):
    d = run_events(case['events'], case['cfg'])
    return [f for f in d.failures if not f[0].startswith('harness:')]
