"""C10 - hostile peer input is contained: no crash, no hang, no collateral damage.

Generator: in every session state with a connection, `good* bad good*` where bad is a well-framed
message whose body is a structure-aware mutation of a reference encoding, a mutation of a byte
string harvested from the unit tests (as body or as attribute value), or random bytes.
Oracles: nothing escapes dataReceived / timers; work budget per chunk; at most one handler report
per message (malformed-UPDATE report carries the raw bytes); a malformed UPDATE body in
Established changes nothing on the wire or in the state; the reports of the good messages that
follow equal those of the control run without the bad one; at the end the agent is in session or
closed with a cooperative peer able to re-establish within the C02 bound.
"""
import struct

from hypothesis import strategies as st

from vlib import budget
from vlib import refcodec as rc
from vlib import session as ss
from vlib import vectors
from vlib.runner import hyp_run

PROPERTY = 'C10'
RULE = ('state in {OPENSENT, OPENCONFIRM, ESTABLISHED} x good* bad good*; bad = UPDATE/OPEN/NOTIFICATION/ROUTE-REFRESH/'
        'KEEPALIVE frame whose body is a mutated reference encoding, a mutated unit-test vector (as body or wrapped as an '
        'attribute / MP_REACH value) or random bytes; sessions in 4- or 2-octet-AS mode, negotiated hold time in '
        '{180, 90, 3, 0}, [bgp] rib on / off, as the first or as the 2nd/3rd session of the agent; one message per TCP segment, and the bad message with all that follows in one segment. Non-trivial = the bad body is >= 1 octet and at least one good '
        'message follows; distinct by (state, bytes).')
ASSUMPTIONS = ['good messages are marked UPDATEs / KEEPALIVEs from refcodec; the control run delivers the same sequence '
               'without the bad message',
               'a report is any handler callback other than on_established / on_connection_lost / send_open']
EXHAUSTIVE = {'quick': False, 'thorough': False}
REPORTS = ('update_received', 'on_update_error', 'keepalive_received', 'open_received', 'route_refresh_received',
           'notification_received')


def good(i, as4=True):
    return rc.keepalive() if i % 3 == 2 else ss.marked_update(i, asn4=as4)[0]


def reports(sim, n0):
    return [(n, p) for _, n, p in sim.handler.calls[n0:] if n in REPORTS]


def run_case(case, with_bad=True, coalesce=False):
    state = case['state']
    bad = rc.frame(case['type'], bytes.fromhex(case['body']))
    as4 = case.get('as4', True)
    caps = [rc.cap_mp(1, 1), rc.cap(2), rc.cap(128)]
    hold = case.get('hold', 180)      # the hold time the peer proposes (the agent is configured with 180): 0 = no timers
    sim, c = ss.new_established(upto='ESTABLISHED' if case.get('prior') else state, hold_time=180, idle_hold_time=5, as4=as4, caps=caps,
                                hold=hold, rib=bool(case.get('rib')))
    r = sim.reactor
    out = []
    # 'late_lost': the connectionLost that follows the agent's own close of an earlier session arrives only after the next
    # session is up (the peer did not read, the FIN took its time)
    r.defer_io = bool(case.get('late_lost')) and bool(case.get('prior'))
    # earlier sessions of the same agent, each ended in a different way, before the session under test
    for how in case.get('prior') or []:
        live = ss.live_connectors(sim)
        if live:
            if how == 'fewcaps-marker':
                # this earlier session is with a peer OPEN that carries one capability only (route refresh), and the agent ends it
                r.peer_close(live[-1])
                r.settle(fire_due=True)
                guard = 0
                while not r.attempts() and r.next_time() is not None and guard < 50:
                    r.advance_to(r.next_time())
                    r.settle(fire_due=True)
                    guard += 1
                if r.attempts():
                    cx = ss.establish(sim, caps=[rc.cap(2)], as4=False, upto='ESTABLISHED', hold=hold)
                    if cx is not None:
                        r.peer_send(cx, b'\x00' * 19)
            elif how == 'close':
                r.peer_close(live[-1])
            elif how == 'marker':
                r.peer_send(live[-1], b'\x00' * 19)
            elif how == 'cease':
                r.peer_send(live[-1], rc.notification(6, 4))
            elif how == 'silence' and hold:
                r.advance(hold + 1)
            elif how == 'silence':
                r.peer_close(live[-1])      # silence never ends a session without a hold timer
            r.settle(fire_due=True)
        # next session up to the state wanted (the last prior leads into the session under test)
        guard = 0
        while not r.attempts() and guard < 50:
            if r.next_time() is None:
                if not r.pending_io():
                    break
                r.deliver_io(0)          # nothing else can happen: the late connectionLost is late, not lost
                r.settle(fire_due=True)
            else:
                r.advance_to(r.next_time())
                r.settle(fire_due=True)
            guard += 1
        if not r.attempts():
            out.append(('prior-session:no-reconnect:%s' % how, 'no new attempt after a session ended by %s' % how))
            return out, [], sim
        c = ss.establish(sim, caps=caps, as4=as4, upto='ESTABLISHED', hold=hold)
        if r.defer_io and r.pending_io():
            st_before = sim.state
            while r.pending_io():
                r.deliver_io(0)
                r.settle(fire_due=True)
            if st_before == 'ESTABLISHED' and sim.state != 'ESTABLISHED':
                out.append(('late-connection-lost:running-session-ends:%s' % sim.state,
                            'the connectionLost of the earlier connection (ended by %s) arrived after the next session was up: state %s -> %s'
                            % (how, st_before, sim.state)))
                return out, [], sim
    r.defer_io = False
    if case.get('prior') and state != 'ESTABLISHED':
        # bring the LAST session only up to the wanted state: end the established one and stop earlier
        live = ss.live_connectors(sim)
        if live:
            r.peer_close(live[-1])
            r.settle(fire_due=True)
        guard = 0
        while not r.attempts() and r.next_time() is not None and guard < 50:
            r.advance_to(r.next_time())
            r.settle(fire_due=True)
            guard += 1
        c = ss.establish(sim, caps=caps, as4=as4, upto=state, hold=hold)
    if c is None or sim.state != state:
        out.append(('harness:state', 'could not reach %s (%s)' % (state, sim.state)))
        return out, [], sim
    seq = [('g', good(i + 1, as4)) for i in range(case['pre'])]
    if with_bad:
        seq.append(('b', bad))
    seq += [('g', good(100 + i, as4)) for i in range(case['post'])]
    if coalesce:
        # the hostile message and everything after it arrive in one TCP segment
        joined = b''.join(d for _, d in seq[case['pre']:])
        if isinstance(coalesce, (list, tuple)):
            # ... or in three: the hostile message is cut behind its header (+x octets), and the segment that completes it ends
            # k octets into the header of the next message
            x, k = coalesce
            cuts = sorted(set(c_ for c_ in (min(19 + x, len(bad) - 1), len(bad) + k) if 0 < c_ < len(joined)))
            joined = [joined[a:b] for a, b in zip([0] + cuts, cuts + [len(joined)])]
        seq = seq[:case['pre']] + [('c', joined)]
    per_msg = []
    mode_known = True
    first_post = case['pre'] + (1 if with_bad else 0)
    for kind, data in seq:
        if with_bad and per_msg and per_msg[-1][0] == 'b' and case['type'] == rc.OPEN and state == 'OPENSENT' and sim.state != 'OPENSENT':
            mode_known = False      # the hostile message was an OPEN the agent accepted: the session is what THAT OPEN negotiated
        if kind == 'g' and case.get('finish_handshake') and len(per_msg) == first_post and sim.state in ('OPENSENT', 'OPENCONFIRM') \
                and c in ss.live_connectors(sim):
            # the hostile message came during the handshake and the agent let it pass: the peer now completes the
            # handshake on the same connection, and what follows is an ordinary Established session
            if sim.state == 'OPENSENT':
                r.peer_send(c, ss.peer_open(sim, hold=hold if hold else None, caps=caps, as4=as4))
                r.settle(fire_due=True)
            if sim.state == 'OPENCONFIRM':
                r.peer_send(c, rc.keepalive())
                r.settle(fire_due=True)
        n0 = len(sim.handler.calls)
        st0 = sim.state
        mark = sim.mark()
        nerr = len(sim.errors)
        pieces = data if isinstance(data, list) else [data]
        data = b''.join(pieces)
        lim = budget.allowance(len(data))
        delivered = True
        with budget.region(lim) as reg:
            for piece in pieces:
                delivered = bool(r.peer_send(c, piece)) and delivered
        r.settle(fire_due=True)
        if reg.exceeded:
            out.append(('budget@%s' % reg.where, 'dataReceived did not finish within %d line events on a %d-octet %s message'
                        % (lim, len(data), kind)))
            return out, per_msg, sim
        for e in sim.errors[nerr:]:
            out.append(('escaped:%s@%s' % (e[2], e[3]), 'exception escaped %s: %s' % (e[1], e[4])))
        rep = reports(sim, n0)
        per_msg.append((kind, delivered, rep))
        if kind == 'g' and delivered and st0 == 'ESTABLISHED' and data[18] == rc.UPDATE and mode_known:
            # a well-formed UPDATE in the session's AS mode is decoded as what it is, whatever came before
            want = [rc.prefix_text(pl, o) for _, pl, o in rc.split_prefixes(rc.split_update(data[19:])[2])]
            if [n for n, _ in rep] != ['update_received'] or list(rep[0][1].get('nlri') or []) != want:
                out.append(('good-update-misreported:%s' % ('+'.join(n for n, _ in rep) or 'nothing'),
                            'well-formed UPDATE announcing %r reported as %r' % (want, rep)))
        if len(rep) > 1 and kind != 'c':
            out.append(('multiple-reports:%s' % '+'.join(n for n, _ in rep), '%d reports for one message: %r' % (len(rep), [n for n, _ in rep])))
        if kind == 'b' and delivered:
            tr = sim.since(mark)
            wrote = [p for _, k, _, p in tr if k == 'write']
            closed = any(k == 'loseConnection' for _, k, _, _ in tr)
            if case['type'] == rc.UPDATE and st0 == 'ESTABLISHED':
                if sim.state != 'ESTABLISHED' or wrote or closed:
                    out.append(('update-tears-down:%s' % ('close' if closed else sim.state),
                                'UPDATE body %s in ESTABLISHED -> state %s, wrote %r, closed %s'
                                % (case['body'][:80], sim.state, [w.hex()[:40] for w in wrote], closed)))
                for n, p in rep:
                    if n == 'on_update_error' and p.get('hex') != repr(bytes.fromhex(case['body'])):
                        out.append(('update-error-report:raw-bytes', 'report carries %r' % (p.get('hex'),)))
    return out, per_msg, sim


def check_case(case):
    budget.enable()
    # control run first (a new simulator invalidates the previous one)
    out2, ctrl, sim2 = run_case(case, False)
    out, per_msg, sim = run_case(case, True)
    out = [f for f in out if not f[0].startswith('harness:')]
    if out or len(per_msg) <= case['pre'] or len(ctrl) < case['pre']:
        return out, 'fail' if out else 'skipped'
    # metamorphic: good messages after the bad one decode as in the control run
    bad_idx = case['pre']
    after = per_msg[bad_idx + 1:]
    ctrl_after = ctrl[bad_idx:]
    bad_delivered = per_msg[bad_idx][1]
    cls = 'survived'
    for (k1, d1, r1), (k2, d2, r2) in zip(after, ctrl_after):
        if not d1 or not d2:
            cls = 'closed'
            break
        if case['type'] == rc.UPDATE and r1 != r2:
            out.append(('collateral:decoding-changed', 'good message after the bad one reported %r, control %r' % (r1, r2)))
            break
    if case.get('coalesce') and cls == 'survived' and not case.get('finish_handshake') and len(after) == case['post']:
        # metamorphic: the same octets in one TCP segment (hostile message first, the good ones behind it) are handled alike
        state_sep = sim.state
        sep = [x for _, _, r_ in per_msg[bad_idx:] for x in r_]
        out3, per3, sim3 = run_case(case, True, coalesce=case['coalesce'])
        out += [f for f in out3 if not f[0].startswith('harness:')]
        if not out3 and len(per3) == bad_idx + 1:
            one = list(per3[bad_idx][2])
            if one != sep or sim3.state != state_sep:
                out.append(('coalesced:%s' % ('state' if one == sep else 'reports-fewer' if len(one) < len(sep) else 'reports-differ'),
                            'in one segment: reports %r, state %s; one message per segment: %r, state %s'
                            % ([n for n, _ in one], sim3.state, [n for n, _ in sep], state_sep)))
        return out, cls            # (sim3 is the live simulator now; the re-establishment check below needs the first one)
    r = sim.reactor
    r.settle(fire_due=True)
    h = min(180, case.get('hold', 180))
    if case['type'] == rc.UPDATE and case['state'] == 'ESTABLISHED' and sim.state == 'ESTABLISHED' and h and cls == 'survived' \
            and ss.live_connectors(sim):
        # the peer's only traffic for two hold intervals is the hostile UPDATE, every third of the hold time: an UPDATE restarts
        # the hold timer (RFC 4271 event 27), so a session that dies here was torn down by the malformed bodies
        c = ss.live_connectors(sim)[-1]
        bad = rc.frame(case['type'], bytes.fromhex(case['body']))
        t_end = r.now + 2 * h + 1
        step = max(1, h // 3)
        while r.now < t_end and sim.state == 'ESTABLISHED':
            if not r.peer_send(c, bad):
                break
            r.settle(fire_due=True)
            r.advance(step)
            r.settle(fire_due=True)
        if sim.state != 'ESTABLISHED':
            # 'unreported': the agent gave the application no report for this body at all (Update.parse raised and the
            # catch-all of parse_buffer dropped the message)
            out.append(('update-tears-down:only-hostile-traffic:%s:%s' % (sim.state, 'reported' if per_msg[bad_idx][2] else 'unreported'),
                        'peer sends UPDATE body %s every %d s and nothing else (hold %d): state %s after %d s'
                        % (case['body'][:80], step, h, sim.state, r.now - (t_end - 2 * h - 1))))
            return out, 'fail'
    if sim.state not in ('ESTABLISHED', 'OPENSENT', 'OPENCONFIRM'):
        cls = 'closed'
        pend = bool(r.pending()) or bool(r.attempts())
        if not pend:
            out.append(('closed-without-reconnect', 'state %s and nothing pending' % sim.state))
        else:
            est = ss.cooperate(sim, r.now + 5 + 60 + 1, peer_hold=180)
            if est is None:
                out.append(('not-reestablished:%s' % sim.state, 'cooperative peer cannot re-establish within 66 s'))
    return out, cls


# ------------------------------------------------------------------------------------------ bad bodies
def ref_update_bodies(w4=True):
    a = rc.a_origin(0) + rc.a_as_path([(2, [65002, 65003]), (1, [100, 200])], w4) + rc.a_next_hop('10.0.0.2')
    bodies = [
        rc.update_body(attrs=a, nlri=rc.prefix4('10.1.0.0/16') + rc.prefix4('10.2.3.0/24')),
        rc.update_body(withdrawn=rc.prefix4('10.9.0.0/16')),
        rc.update_body(attrs=a + rc.a_med(5) + rc.a_local_pref(100) + rc.a_communities([0xFFFFFF01, 65001 << 16 | 5]) +
                       rc.a_ext_communities([struct.pack('!HHI', 2, 100, 200)]) + rc.a_large_communities([(1, 2, 3)]) +
                       rc.a_aggregator(65002, '1.1.1.1', w4) + rc.a_originator('1.1.1.1') + rc.a_cluster_list(['2.2.2.2']),
                       nlri=rc.prefix4('10.1.0.0/16')),
        rc.update_body(attrs=rc.a_origin(0) + rc.a_as_path([(2, [65002])], w4) + rc.a_mp_reach(2, 1, rc.ip6('2001:db8::1'), rc.prefix6('2001:db8:1::/48'))),
        rc.update_body(attrs=rc.a_mp_unreach(2, 1, rc.prefix6('2001:db8:1::/48'))),
        rc.update_body(attrs=rc.a_origin(0) + rc.a_as_path([(2, [65002])], w4) + rc.a_mp_reach(
            1, 128, b'\x00' * 8 + rc.ip4('10.0.0.2'), rc.vpn_route('10.1.1.0/24', rc.rd('100:1'), [16]))),
        rc.update_body(attrs=rc.a_origin(0) + rc.a_as_path([(2, [65002])], w4) + rc.a_mp_reach(
            25, 70, rc.ip4('10.0.0.2'), rc.evpn_type2(rc.rd('100:1'), rc.esi(0, value=0), 5, '00-11-22-33-44-55', '10.0.0.9', [100]))),
        rc.update_body(attrs=rc.a_origin(0) + rc.a_as_path([(2, [65002])], w4) + rc.a_mp_reach(
            1, 133, b'', rc.fs_rule([rc.fs_prefix4(1, '10.0.0.0/24'), rc.fs_component(3, rc.fs_numeric([(0, '=', 6)]))]))),
        rc.update_body(attrs=rc.a_origin(0) + rc.a_as_path([(2, [65002])], w4) + rc.a_mp_reach(16388, 71, rc.ip4('10.0.0.2'), b'') +
                       rc.a_unknown(29, struct.pack('!HH', 1034, 9) + b'\x80\x00\x00\x00\x64\x04\x89\x00\x03', flags=0x80)),
    ]
    return bodies


REF_BODIES = ref_update_bodies(True) + ref_update_bodies(False)
ATTR_TYPES = [1, 2, 3, 4, 5, 6, 7, 8, 9, 10, 14, 15, 16, 17, 18, 22, 23, 29, 32, 40, 99]


@st.composite
def bad_message(draw):
    kind = draw(st.sampled_from(['mut-ref', 'mut-ref', 'vec-body', 'vec-attr', 'vec-mp', 'random', 'other-type', 'lsattr', 'other-width']))
    mtype = rc.UPDATE
    if kind == 'other-width':
        # a reference encoding in either AS-number width, unmutated: malformed for one of the two session modes
        body = draw(st.sampled_from(REF_BODIES))
    elif kind == 'mut-ref':
        b = bytearray(draw(st.sampled_from(REF_BODIES)))
        for _ in range(draw(st.integers(1, 4))):
            op = draw(st.sampled_from(['set', 'set', 'trunc', 'insert', 'dup']))
            if not b:
                break
            if op == 'set':
                b[draw(st.integers(0, len(b) - 1))] = draw(st.sampled_from([0, 1, 0xFF, 0x7F, 0x80]) | st.integers(0, 255))
            elif op == 'trunc':
                del b[draw(st.integers(0, len(b) - 1)):]
            elif op == 'insert':
                i = draw(st.integers(0, len(b)))
                b[i:i] = draw(st.binary(min_size=1, max_size=6))
            else:
                i = draw(st.integers(0, len(b) - 1))
                b[i:i] = b[i:i + draw(st.integers(1, 8))]
        body = bytes(b)
    elif kind.startswith('vec'):
        v = bytearray(draw(st.sampled_from(vectors.vectors())))
        for _ in range(draw(st.integers(0, 2))):
            if v:
                v[draw(st.integers(0, len(v) - 1))] = draw(st.integers(0, 255))
        v = bytes(v)[:3000]
        if kind == 'vec-body':
            body = v
        elif kind == 'vec-attr':
            body = rc.update_body(attrs=rc.a_unknown(draw(st.sampled_from(ATTR_TYPES)), v, flags=draw(st.sampled_from([0x40, 0x80, 0xC0]))))
        else:
            afi, safi = draw(st.sampled_from([(1, 1), (1, 4), (1, 128), (1, 133), (2, 1), (2, 4), (2, 128), (25, 70), (16388, 71), (1, 73)]))
            nh = draw(st.sampled_from([b'', rc.ip4('10.0.0.2'), rc.ip6('2001:db8::1'), b'\x00' * 8 + rc.ip4('10.0.0.2')]))
            body = rc.update_body(attrs=rc.a_mp_reach(afi, safi, nh, v) if draw(st.booleans()) else rc.a_mp_unreach(afi, safi, v))
    elif kind == 'lsattr':
        tlvs = draw(st.lists(st.tuples(st.sampled_from([1034, 1036, 1099, 1100, 1158, 1162, 1038, 1028, 1155, 518, 1106, 1107]),
                                       st.binary(max_size=20)), min_size=1, max_size=4))
        ls = b''.join(struct.pack('!HH', t, len(v)) + v for t, v in tlvs)
        body = rc.update_body(attrs=rc.a_mp_reach(16388, 71, rc.ip4('10.0.0.2'), draw(st.binary(max_size=30))) + rc.a_unknown(29, ls, flags=0x80))
    elif kind == 'random':
        body = draw(st.binary(min_size=0, max_size=200))
    else:
        mtype = draw(st.sampled_from([rc.OPEN, rc.NOTIFICATION, rc.ROUTE_REFRESH, rc.ROUTE_REFRESH_CISCO, rc.KEEPALIVE]))
        base = {rc.OPEN: rc.open_msg(65002, 90, '10.0.0.2', [rc.cap_mp(1, 1), rc.cap_addpath([(1, 1, 3)])], as4=True)[19:],
                rc.NOTIFICATION: draw(st.sampled_from([b'\x06\x02', b'\x02\x01', b'\x02\x01\x00\x04', b'\x01\x01', b'\x03\x05', b'\x04\x00',
                                                      b'\x05\x00'])), rc.ROUTE_REFRESH: b'\x00\x01\x00\x01', rc.ROUTE_REFRESH_CISCO: b'\x00\x01\x00\x01',
                rc.KEEPALIVE: b''}[mtype]
        b = bytearray(base)
        for _ in range(draw(st.integers(0, 3))):
            if b and draw(st.booleans()):
                b[draw(st.integers(0, len(b) - 1))] = draw(st.integers(0, 255))
            elif b and draw(st.booleans()):
                del b[draw(st.integers(0, len(b) - 1)):]
            else:
                b += draw(st.binary(min_size=1, max_size=5))
        body = bytes(b)
    if mtype == rc.UPDATE and draw(st.integers(0, 11)) == 0:
        # the largest message RFC 4271 allows (4096 octets): an optional transitive attribute of the right size is added
        # to the path attributes when the body is well enough formed for that, else filler octets
        room = 4096 - 19 - len(body)
        try:
            wd, attrs, nlri = rc.split_update(body)
            if room >= 4:
                big = rc.a_unknown(99, b'\x5a' * (room - 4), flags=0xC0, ext=True)
                body = rc.update_body(wd, attrs + big, nlri)
        except rc.WalkError:
            body = body + b'\x00' * max(0, room)
        kind = kind + '+maxlen'
    body = body[:4096 - 19]
    return {'kind': kind, 'type': mtype, 'body': body.hex()}


case_strategy = st.builds(
    lambda state, pre, post, bad, as4, prior, hold, rib, fin, late, co: dict(state=state, pre=pre, post=post, type=bad['type'],
                                                                             body=bad['body'], kind=bad['kind'], as4=as4, prior=prior, hold=hold,
                                                                             rib=rib, finish_handshake=fin, late_lost=late, coalesce=co),
    st.sampled_from(['ESTABLISHED', 'ESTABLISHED', 'ESTABLISHED', 'OPENCONFIRM', 'OPENSENT']),
    st.integers(0, 2), st.integers(1, 3), bad_message(), st.booleans(),
    st.one_of(st.just([]), st.just([]), st.lists(st.sampled_from(['close', 'marker', 'cease', 'silence', 'fewcaps-marker']), min_size=1, max_size=2)),
    st.sampled_from([180, 180, 0, 0, 3, 90]), st.booleans(), st.booleans(), st.booleans(),
    st.one_of(st.sampled_from([False, False, True]), st.tuples(st.sampled_from([0, 1, 40]), st.integers(1, 18)).map(list)))


def shards(tier):
    out = [{'name': 'hostile-%d' % i, 'kind': 'hyp', 'examples': 2000 if tier == 'quick' else 40000, 'hypothesis': True}
           for i in range(16)]
    if tier == 'thorough':
        out += [{'name': 'atheris-%d' % i, 'kind': 'atheris', 'seconds': 240, 'fuzzseed': i + 1} for i in range(16)]
    return out


STATES = ['ESTABLISHED', 'ESTABLISHED', 'OPENCONFIRM', 'OPENSENT']
TYPES = [2, 2, 2, 2, 2, 1, 3, 5, 128, 4]
DECODERS = [0]      # (only used by the corpus seeding of vlib.fuzz_atheris)


def fuzz_case(data):
    data = bytes(data)
    b0 = data[0] if data else 0
    b1 = data[1] if len(data) > 1 else 0
    return {'state': STATES[b0 % 4], 'as4': bool(b0 & 4), 'pre': (b0 >> 3) & 1, 'post': 1 + ((b0 >> 4) & 1),
            'hold': 0 if b0 & 0x20 else 180, 'rib': bool(b0 & 0x40),
            'type': TYPES[b1 % len(TYPES)], 'body': data[2:4000].hex(), 'kind': 'atheris'}


def fuzz_one(data):
    return check_case(fuzz_case(data))[0]


def run_shard(spec, seed, col, tier):
    if spec['kind'] == 'atheris':
        import sys as _sys
        from vlib import fuzzshard
        fuzzshard.run('C10', _sys.modules[__name__], col, spec['seconds'], spec['fuzzseed'])
        return
    def body(case):
        res, cls = check_case(case)
        col.case(case, len(case['body']) >= 2 and case['post'] >= 1,
                 labels=['state:' + case['state'], 'kind:' + case['kind'], 'as4:%s' % case.get('as4', True), 'prior-sessions:%d' % len(case.get('prior') or []), 'hold:%s' % case.get('hold', 180), 'rib:%s' % bool(case.get('rib')), 'type:%d' % case['type'], 'outcome:' + cls])
        for sig, detail in res:
            col.fail(sig, case, detail)
    hyp_run(col, case_strategy, body, seed, spec['examples'])


def replay(case):
    return check_case(case)[0]
