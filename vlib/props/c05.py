"""C05 - each session's OPEN and its acceptance policy depend only on configuration.

Generator: local/remote AS over the 2-/4-octet boundary, configured hold, capability switches,
a history of 0-4 earlier sessions with arbitrary peer OPENs, then the observed session (peer OPEN
valid / bad version / AS mismatch in field or capability / hold 0,1,2,3,...) and one UPDATE.
"""
import struct

from hypothesis import strategies as st

from vlib import refcodec as rc
from vlib import session as ss
from vlib import strategies as vs
from vlib.runner import hyp_run
from vlib.sim import Sim

PROPERTY = 'C05'
RULE = ('configuration (local/remote AS across 65535/65536/2^32-1, hold in {0,3,30,180,65535}, capability switches, '
        'afi_safi subsets, add-path) x history of 0-4 earlier sessions with arbitrary peer OPENs x observed peer OPEN '
        '(valid, version!=4, AS mismatch in field / in capability, AS_TRANS with/without capability, hold 0/1/2/3/random) '
        'x one UPDATE. Non-trivial = history >= 1 with a different peer OPEN, or an AS > 65535; distinct by canonical JSON.')
ASSUMPTIONS = [
    'the agent advertises capability 65 iff four_bytes_as is configured or its AS exceeds 65535 (read from its OPEN)',
    'session hold time is observed from outside as the instant of Hold Timer Expired under silence',
]
EXHAUSTIVE = {'quick': False, 'thorough': False}

FAMILIES = ['ipv4', 'ipv6', 'vpnv4', 'vpnv6', 'flowspec', 'evpn', 'ipv4_lu', 'bgpls', 'ipv4_srte']
CAPCODE = {'route_refresh': 2, 'cisco_route_refresh': 128, 'enhanced_route_refresh': 70}


def mk_sim(cfg):
    if cfg.get('wildcard'):
        # local address 0.0.0.0: the agent takes its BGP identifier from the first connection's local address; later
        # connections leave through another interface
        sim = Sim(local_addr='0.0.0.0', local_as=cfg['local_as'], remote_as=cfg['remote_as'], hold_time=cfg['hold'], idle_hold_time=5,
                  connect_retry_time=60, four_bytes_as=cfg['four_bytes_as'], route_refresh=cfg['route_refresh'],
                  cisco_route_refresh=cfg['cisco_route_refresh'], enhanced_route_refresh=cfg['enhanced_route_refresh'],
                  add_path=cfg['add_path'], afi_safi=tuple(cfg['afi_safi']))
        sim.reactor.egress_hosts = ['10.0.0.1', '10.9.9.1', '172.16.5.4']
        return sim
    return Sim(local_as=cfg['local_as'], remote_as=cfg['remote_as'], hold_time=cfg['hold'], idle_hold_time=5,
               connect_retry_time=60, four_bytes_as=cfg['four_bytes_as'], route_refresh=cfg['route_refresh'],
               cisco_route_refresh=cfg['cisco_route_refresh'], enhanced_route_refresh=cfg['enhanced_route_refresh'],
               add_path=cfg['add_path'], afi_safi=tuple(cfg['afi_safi']))


def peer_open_bytes(cfg, spec):
    """spec: {'version','as':'match'|'other'|'cap-mismatch'|'trans-nocap','hold','as4':bool,'caps':[...]}"""
    R = cfg['remote_as']
    as4 = spec['as4']
    kind = spec['as']
    true_as = R
    if kind == 'other':
        true_as = R + 1 if R < 2 ** 32 - 1 else R - 1
    caps = []
    for c in spec['caps']:
        if c == 'mp4':
            caps.append(rc.cap_mp(1, 1))
        elif c == 'mp6':
            caps.append(rc.cap_mp(2, 1))
        elif c == 'rr':
            caps.append(rc.cap(2))
        elif c == 'rr128':
            caps.append(rc.cap(128))
        elif c == 'err':
            caps.append(rc.cap(70))
        elif c == 'addpath':
            caps.append(rc.cap_addpath([(1, 1, 3)]))
        elif c == 'gr':
            caps.append(rc.cap_gr(120))
    if kind == 'cap-mismatch':
        # field says R (or AS_TRANS), the 4-octet capability says something else: the capability is the true AS
        other = R + 1 if R < 2 ** 32 - 1 else R - 1
        caps.append(rc.cap_as4(other))
        field = R if R <= 65535 else 23456
        true_as = other
        has65 = True
    elif kind == 'trans-nocap':
        field = 23456
        true_as = 23456
        has65 = False
    else:
        if as4 or true_as > 65535:
            caps.append(rc.cap_as4(true_as))
            has65 = True
        else:
            has65 = False
        field = true_as if true_as <= 65535 else 23456
    params = b''.join(rc.opt_param(2, c) for c in caps)
    body = rc.open_body(spec['version'], field, spec['hold'], spec.get('bgp_id', '10.0.0.2'), params)
    accept = spec['version'] == 4 and true_as == R and spec['hold'] not in (1, 2)
    reasons = set()
    if spec['version'] != 4:
        reasons.add(1)
    if true_as != R:
        reasons.add(2)
    if spec['hold'] in (1, 2):
        reasons.add(6)
    return rc.frame(rc.OPEN, body), accept, reasons, has65


# well-framed OPEN bodies whose optional parameters cannot be decoded
GARBLED = [
    rc.open_body(4, 65002, 90, '10.0.0.2', rc.opt_param(2, rc.cap(69, struct.pack('!HBB', 3, 3, 1)))),       # ADD-PATH, unknown family
    rc.open_body(4, 65002, 90, '10.0.0.2', rc.opt_param(2, rc.cap(65, b'\x00\x01'))),                        # 4-octet AS, 2 octets
    rc.open_body(4, 65002, 90, '10.0.0.2', rc.opt_param(2, rc.cap(1, b'\x00\x01')))[:-1] + b'',              # multiprotocol, cut short
    rc.open_body(4, 65002, 90, '10.0.0.2', b'')[:-1] + b'\x0a' + b'\x02\x06\x01\x04',                        # parameter length beyond the message
]


def next_attempt(sim, limit=400.0):
    r = sim.reactor
    end = r.now + limit
    guard = 0
    while not r.attempts() and guard < 200:
        t = r.next_time()
        if r.pending_io() and (t is None or t > r.now + 10.0):
            # a deferred connectionLost is late by at most some seconds, not for ever
            r.deliver_io(0)
            r.settle(fire_due=True)
            guard += 1
            continue
        if t is None or t > end:
            break
        r.advance_to(t)
        r.settle(fire_due=True)
        guard += 1
    return r.attempts()


def agent_open_of(c):
    data = b''.join(b for _, b in c.transport.written)
    fr = rc.split_frames(data)
    return fr[0] if fr else None


def run_case(case):
    cfg = case['cfg']
    out = []
    # the OPEN of a fresh boot with this configuration (computed before this case's simulator exists)
    fs = mk_sim(cfg)
    ref = agent_open_of(ss.connect(fs))[1]
    sim = mk_sim(cfg)
    r = sim.reactor
    # 'late_lost': the connectionLost that follows the agent's own loseConnection arrives only after the next
    # connection has been made (Twisted promises "a later reactor turn", nothing more)
    r.defer_io = bool(case.get('late_lost'))
    r.segments = case.get('seg')        # every peer message arrives in that many TCP segments
    sim.boot()
    opens = []
    specs = list(case['history']) + [case['observed']]
    for idx, spec in enumerate(specs):
        last = idx == len(specs) - 1
        att = r.attempts() or next_attempt(sim)
        if not att:
            out.append(('no-new-attempt:after-session-%d' % idx, 'no connection attempt within 400 s after session %d' % idx))
            return out
        c = att[-1]
        r.accept(c)
        r.settle(fire_due=True)
        fr = agent_open_of(c)
        if fr is None or fr[0] != rc.OPEN:
            out.append(('no-open-sent', 'first frame on connection %d is %r' % (c.id, fr)))
            return out
        opens.append(fr[1])
        while r.pending_io():
            r.deliver_io(0)
            r.settle(fire_due=True)
        msg, accept, reasons, peer65 = peer_open_bytes(cfg, spec)
        if last and case.get('garbled_first') is not None:
            # first an OPEN the agent cannot digest; if it lets that pass (no answer, still OpenSent) the real OPEN that
            # follows is negotiated exactly as a first one
            mark0 = sim.mark()
            r.peer_send(c, rc.frame(rc.OPEN, GARBLED[case['garbled_first'] % len(GARBLED)]))
            r.settle(fire_due=True)
            if sim.state != 'OPENSENT' or any(k in ('write', 'loseConnection') for _, k, _, _ in sim.since(mark0)):
                return out          # the agent reacted to the garbled OPEN: a different story, not this case
        mark = sim.mark()
        r.peer_send(c, msg)
        r.settle(fire_due=True)
        frames = ss.frames_written(sim.since(mark), c.id)
        kinds = [(t, (b[0], b[1]) if t == rc.NOTIFICATION and len(b) >= 2 else None) for _, t, b in frames]
        if last:
            if accept:
                if kinds != [(rc.KEEPALIVE, None)] or sim.state != 'OPENCONFIRM':
                    out.append(('acceptance:valid-open-not-accepted:%s' % _k(kinds),
                                'valid OPEN %r answered with %r, state %s' % (spec, kinds, sim.state)))
                    return out
            else:
                ok = len(kinds) == 1 and kinds[0][0] == rc.NOTIFICATION and kinds[0][1][0] == 2 and kinds[0][1][1] in reasons
                if not ok:
                    out.append(('acceptance:bad-open:%s:reasons=%s' % (_k(kinds), '+'.join(map(str, sorted(reasons)))),
                                'OPEN %r (reject reasons %r) answered with %r, state %s' % (spec, sorted(reasons), kinds, sim.state)))
                    return out
        if accept and kinds == [(rc.KEEPALIVE, None)]:
            if last or spec.get('complete', True):
                r.peer_send(c, rc.keepalive())
                r.settle(fire_due=True)
        if not last:
            # end this session one way or another
            live = ss.live_connectors(sim)
            if live:
                end = spec.get('end', 'close')
                if end == 'notif':
                    r.peer_send(live[-1], rc.notification(6, 4))
                elif end == 'notif-ver':
                    r.peer_send(live[-1], rc.notification(2, 1))
                elif end == 'bad-marker':
                    r.peer_send(live[-1], b'\x00' * 19)
                elif end == 'update-early':
                    r.peer_send(live[-1], ss.marked_update(1)[0])
                    r.peer_send(live[-1], rc.frame(rc.OPEN, b'\x04'))
                elif end == 'stop-start':
                    sim.manual_stop()
                    r.settle(fire_due=True)
                    sim.manual_start()
                elif end == 'hold-expiry':
                    r.advance(min(cfg['hold'], spec['hold']) + 241)
                r.settle(fire_due=True)
                live = ss.live_connectors(sim)
                if live and end != 'stop-start':
                    r.peer_close(live[-1])
                    r.settle(fire_due=True)
    # ---------------------------------------------------------------- the agent's OPENs
    for i, ob in enumerate(opens):
        if ob != ref:
            out.append(('open:differs-from-fresh-boot:%s' % open_diff(ref, ob),
                        'OPEN of session %d %s differs from the OPEN of a fresh boot %s (history %r)'
                        % (i, ob.hex(), ref.hex(), case['history'][:i])))
            break
    d = rc.decode_open(ref)
    L = cfg['local_as']
    want_field = L if L <= 65535 else 23456
    agent65 = any(c[0] == 65 for c in d['caps'])
    if d['version'] != 4:
        out.append(('open:version', 'version %d' % d['version']))
    if d['my_as'] != want_field:
        out.append(('open:my-as', 'My-AS %d for local AS %d' % (d['my_as'], L)))
    if (L > 65535 or cfg['four_bytes_as']) and (not agent65 or d['asn'] != L):
        out.append(('open:as4-capability', 'capability 65 absent or wrong (%r) for AS %d' % (d['caps'], L)))
    if not (L > 65535 or cfg['four_bytes_as']) and agent65:
        out.append(('open:as4-capability-unconfigured', 'capability 65 sent although not configured'))
    if d['hold'] != cfg['hold']:
        out.append(('open:hold', 'hold %d, configured %d' % (d['hold'], cfg['hold'])))
    allowed = {1, 65}
    for k, code in CAPCODE.items():
        if cfg[k]:
            allowed.add(code)
    if cfg['add_path']:
        allowed.add(69)
    if 'vpnv4' in cfg['afi_safi'] or 'vpnv6' in cfg['afi_safi']:
        allowed.add(5)
    sent = set(c[0] for c in d['caps'])
    if not sent <= allowed:
        out.append(('open:unconfigured-capability:%s' % sorted(sent - allowed), 'capabilities %r, configured set %r' % (sorted(sent), sorted(allowed))))
    if out or not case['observed_accept']:
        return out
    # ---------------------------------------------------------------- the session itself
    spec = case['observed']
    if sim.state != 'ESTABLISHED':
        out.append(('session:not-established:%s' % sim.state, 'after OPEN/KEEPALIVE the state is %s' % sim.state))
        return out
    c = ss.live_connectors(sim)[-1]
    _, _, _, peer65 = peer_open_bytes(cfg, spec)
    both4 = agent65 and peer65
    path = case['as_path']
    if not both4:
        path = [[s[0], [a if a <= 65535 else 23456 for a in s[1]]] for s in path]
    agg_as = case['agg_as'] if (both4 or case['agg_as'] <= 65535) else 23456
    attrs = rc.a_origin(0) + rc.a_as_path([(s[0], s[1]) for s in path], both4) + rc.a_next_hop('10.0.0.2') + \
        rc.a_aggregator(agg_as, '10.9.9.9', both4)
    n0 = len(sim.handler.calls)
    r.peer_send(c, rc.update(attrs=attrs, nlri=rc.prefix4('10.55.0.0/16')))
    r.settle(fire_due=True)
    t_last = r.now
    calls = sim.handler.calls[n0:]
    upd = [p for _, n, p in calls if n == 'update_received']
    if len(upd) != 1:
        out.append(('as-mode:update-not-delivered:both4=%s' % both4, 'handler calls %r' % [(n) for _, n, _ in calls]))
    else:
        a = upd[0]['attr']
        got_path = [[s[0], list(s[1])] for s in a.get(2, [])]
        if got_path != [[s[0], list(s[1])] for s in path]:
            out.append(('as-mode:as-path:agent65=%s,peer65=%s' % (agent65, peer65),
                        'AS_PATH encoded %r (4-octet=%s) decoded %r' % (path, both4, got_path)))
        if tuple(a.get(7, ())) != (agg_as, '10.9.9.9'):
            out.append(('as-mode:aggregator:agent65=%s,peer65=%s' % (agent65, peer65), 'AGGREGATOR %r' % (a.get(7),)))
    # hold time = min(configured, proposed), seen as the expiry instant
    H = min(cfg['hold'], spec['hold'])
    if sim.state != 'ESTABLISHED':
        return out
    if H == 0:
        r.advance(5 * 240.0)
        r.settle(fire_due=True)
        if sim.state != 'ESTABLISHED':
            out.append(('hold:H0-expired', 'hold time 0 but the session ended (%s)' % sim.state))
        return out
    mark = sim.mark()
    r.advance_to(t_last + H - 0.5)
    r.settle(fire_due=True)
    if sim.state != 'ESTABLISHED':
        out.append(('hold:early:conf=%s' % _cmp(cfg['hold'], spec['hold']), 'session ended before min(%d,%d) s of silence' % (cfg['hold'], spec['hold'])))
        return out
    r.advance_to(t_last + H)
    r.settle(fire_due=True)
    fr = ss.frames_written(sim.since(mark), c.id)
    if not any(t == rc.NOTIFICATION and b[0] == 4 for _, t, b in fr):
        out.append(('hold:late:conf=%s' % _cmp(cfg['hold'], spec['hold']),
                    'no Hold Timer Expired after min(%d,%d)=%d s of silence (state %s)' % (cfg['hold'], spec['hold'], H, sim.state)))
    return out


def _cmp(a, b):
    return 'lt' if a < b else ('gt' if a > b else 'eq')


def _k(kinds):
    return '+'.join('N%d.%d' % k[1] if k[1] else {1: 'OPEN', 4: 'KA'}.get(k[0], 'T%d' % k[0]) for k in kinds) or 'nothing'


def open_diff(ref, got):
    a, b = rc.decode_open(ref), rc.decode_open(got)
    f = [k for k in ('version', 'my_as', 'hold', 'bgp_id') if a[k] != b[k]]
    if f:
        return 'fields=' + '+'.join(f)
    ca, cb = [c[0] for c in a['caps']], [c[0] for c in b['caps']]
    if sorted(ca) != sorted(cb):
        # which side has more, not which capability codes (one root cause, one signature)
        return 'capabilities:%s' % '+'.join(w for w, d in (('missing', set(ca) - set(cb)), ('extra', set(cb) - set(ca))) if d)
    return 'capability-values'


# ------------------------------------------------------------------------------------------ strategies
as_val = st.one_of(st.sampled_from([1, 23455, 23456, 64512, 65534, 65535, 65536, 65537, 2 ** 31, 2 ** 32 - 2, 2 ** 32 - 1]),
                   st.integers(1, 65535), st.integers(65536, 2 ** 32 - 1))
cfg_strategy = st.fixed_dictionaries({
    'local_as': as_val, 'remote_as': as_val, 'hold': st.sampled_from([0, 3, 30, 180, 65535]),
    'four_bytes_as': st.booleans(), 'route_refresh': st.booleans(), 'cisco_route_refresh': st.booleans(),
    'enhanced_route_refresh': st.booleans(), 'add_path': st.sampled_from([None, None, 'ipv4_send', 'ipv4_receive', 'ipv4_both']),
    'afi_safi': st.lists(st.sampled_from(FAMILIES), min_size=1, max_size=4, unique=True),
    'wildcard': st.sampled_from([False, False, False, True])})
peer_spec = st.fixed_dictionaries({
    'version': st.sampled_from([4, 4, 4, 4, 3, 5]),
    'as': st.sampled_from(['match', 'match', 'match', 'other', 'cap-mismatch', 'trans-nocap']),
    'hold': st.one_of(st.sampled_from([0, 1, 2, 3, 4, 30, 90, 180, 65535]), st.integers(3, 65535)),
    'as4': st.booleans(),
    # the peer may come back with another BGP identifier (router-id changed): acceptance does not depend on it
    'bgp_id': st.sampled_from(['10.0.0.2', '10.0.0.2', '10.0.0.2', '10.0.0.3', '192.0.2.77', '223.255.255.254']),
    'caps': st.lists(st.sampled_from(['mp4', 'mp6', 'rr', 'rr128', 'err', 'addpath', 'gr']), unique=True, max_size=6),
    'end': st.sampled_from(['close', 'notif', 'notif-ver', 'bad-marker', 'update-early', 'stop-start', 'hold-expiry']),
    'complete': st.booleans()})


@st.composite
def case_strategy(draw):
    cfg = draw(cfg_strategy)
    hist = draw(st.lists(peer_spec, max_size=4))
    obs = draw(peer_spec)
    _, accept, _, _ = peer_open_bytes(cfg, obs)
    nseg = draw(st.integers(1, 3))
    path = [[draw(st.sampled_from([1, 2])), draw(st.lists(vs.asn4, min_size=1, max_size=4))] for _ in range(nseg)]
    return {'cfg': cfg, 'history': hist, 'observed': obs, 'observed_accept': accept, 'as_path': path, 'agg_as': draw(vs.asn4),
            'late_lost': draw(st.booleans()), 'garbled_first': draw(st.sampled_from([None, None, None, 0, 1, 2, 3])),
            'seg': draw(st.sampled_from([None, None, None, 2, 5]))}


def shards(tier):
    return [{'name': 'cases-%d' % i, 'kind': 'hyp', 'examples': 1500 if tier == 'quick' else 30000, 'hypothesis': True}
            for i in range(12 if tier == 'quick' else 16)]


def run_shard(spec, seed, col, tier):
    def body(case):
        res = run_case(case)
        nt = (len(case['history']) >= 1 and any(h != case['observed'] for h in case['history'])) or \
            case['cfg']['local_as'] > 65535 or case['cfg']['remote_as'] > 65535
        col.case(case, nt, labels=['history:%d' % len(case['history']), 'accept:%s' % case['observed_accept'],
                                   'as:' + case['observed']['as']])
        for sig, detail in res:
            col.fail(sig, case, detail)
    hyp_run(col, case_strategy(), body, seed, spec['examples'])


def replay(case):
    return run_case(case)
