"""C09 - decoding agrees with an independent RFC encoder, including legal variants.

Positive half: values pushed through the refcodec encoder with each variant switch on/off
(extended length on short attributes, non-zero trailing bits in IPv4 prefixes, any attribute
order, several AS_PATH segments, AS4_PATH / AS4_AGGREGATOR, 2-/4-octet AS, add-path identifiers)
must decode to exactly the encoded values with no error.  Negative half: single-field corruptions
the decoder does check must be reported as an error.
"""
import ipaddress
import struct

from hypothesis import strategies as st

from vlib import env
env.install()

from vlib import refcodec as rc  # noqa: E402
from vlib import strategies as vs  # noqa: E402
from vlib.runner import hyp_run  # noqa: E402
from vlib.util import diff_path, exc_sig  # noqa: E402
from vlib.props import c07  # noqa: E402

from yabgp.message.update import Update  # noqa: E402

PROPERTY = 'C09'
RULE = ('positive: UPDATE values (IPv4 prefixes of every length with random trailing bits, all standard attributes at their '
        'boundaries, IPv6 unicast / VPNv4 / labeled IPv4 MP attributes) encoded by refcodec with variant switches: extended '
        'length on short attributes, attribute order, AS_PATH segmentation, AS4_PATH/AS4_AGGREGATOR, 2-/4-octet AS, add-path. '
        'negative: ORIGIN > 2, prefix length 33..255, AS_PATH segment type outside 1..4, wrong fixed attribute lengths. '
        'Non-trivial = at least one non-default variant switch or a corruption; distinct by bytes.')
ASSUMPTIONS = ['masking of trailing bits is demanded for IPv4 prefixes only (the statement names IPv4)',
               'for the error half any non-empty sub_error is accepted']
EXHAUSTIVE = {'quick': False, 'thorough': False}


def ec_item():
    """(octets, text) pairs for a few extended-community kinds"""
    return st.one_of(
        st.tuples(vs.u16, vs.u32).map(lambda t: (struct.pack('!HHI', 0x0002, *t), 'route-target:%d:%d' % t)),
        st.tuples(vs.ipv4_int, vs.u16).map(lambda t: (struct.pack('!H', 0x0102) + rc.ip4(t[0]) + struct.pack('!H', t[1]),
                                                      'route-target:%s:%d' % (ipaddress.IPv4Address(t[0]), t[1]))),
        st.tuples(vs.u32, vs.u16).map(lambda t: (struct.pack('!HIH', 0x0203, *t), 'route-origin:%d:%d' % t)),
        vs.u32.map(lambda v: (struct.pack('!HHI', 0x030b, 0, v), 'color:%d' % v)),
        st.tuples(vs.u16, vs.u32).map(lambda t: (struct.pack('!HHI', 0x8008, *t), 'redirect-vrf:%d:%d' % t)),
    )


@st.composite
def positive_case(draw):
    asn4 = draw(st.booleans())
    asn = vs.asn4 if asn4 else vs.asn2
    addpath = draw(st.integers(0, 3)) == 0
    ext_all = draw(st.booleans())
    enc = []   # (type_code, encoded attribute)
    exp = {}

    def ext():
        return True if (ext_all or draw(st.integers(0, 2)) == 0) else None

    shape = draw(st.sampled_from(['v4', 'v4', 'v4', 'wd', 'v6', 'v6-unreach', 'vpn4', 'lu4']))
    withdraw_b = nlri_b = b''
    exp_nlri, exp_wd = [], []
    if shape != 'wd' and shape != 'v6-unreach':
        o = draw(st.integers(0, 2))
        enc.append((1, rc.a_origin(o, ext=ext())))
        exp[1] = o
        nseg = draw(st.integers(0, 4))
        segs = [(draw(st.integers(1, 4)), draw(st.lists(asn, min_size=0, max_size=5))) for _ in range(nseg)]
        if draw(st.integers(0, 5)) == 0:
            segs.append((2, draw(st.lists(asn, min_size=60, max_size=70))))
        enc.append((2, rc.a_as_path(segs, asn4, ext=ext() if len(rc.as_path_value(segs, asn4)) <= 255 else None)))
        exp[2] = [[t, list(a)] for t, a in segs]
        if shape in ('v4',):
            nh = draw(vs.ipv4_host)
            enc.append((3, rc.a_next_hop(nh, ext=ext())))
            exp[3] = nh
        for c in sorted(draw(st.sets(st.sampled_from([4, 5, 6, 7, 8, 9, 10, 16, 17, 18, 32, 99]), max_size=6))):
            if c in (4, 5):
                v = draw(vs.u32)
                enc.append((c, (rc.a_med if c == 4 else rc.a_local_pref)(v, ext=ext())))
                exp[c] = v
            elif c == 6:
                enc.append((6, rc.a_atomic(ext=ext())))
                exp[6] = ''
            elif c == 7:
                a, ip = draw(asn), draw(vs.ipv4_addr)
                enc.append((7, rc.a_aggregator(a, ip, asn4, ext=ext())))
                exp[7] = [a, ip]
            elif c == 8:
                vals = draw(st.lists(st.one_of(st.sampled_from(sorted(rc.WELL_KNOWN_COMMUNITIES)), vs.u32), min_size=1, max_size=6))
                enc.append((8, rc.a_communities(vals, ext=ext())))
                exp[8] = [rc.community_text(v) for v in vals]
            elif c == 9:
                ip = draw(vs.ipv4_addr)
                enc.append((9, rc.a_originator(ip, ext=ext())))
                exp[9] = ip
            elif c == 10:
                ips = draw(st.lists(vs.ipv4_addr, min_size=1, max_size=4))
                enc.append((10, rc.a_cluster_list(ips, ext=ext())))
                exp[10] = ips
            elif c == 16:
                items = draw(st.lists(ec_item(), min_size=1, max_size=4))
                enc.append((16, rc.a_ext_communities([i[0] for i in items], ext=ext())))
                exp[16] = [i[1] for i in items]
            elif c == 17:
                segs4 = [(draw(st.integers(1, 2)), draw(st.lists(vs.asn4, min_size=1, max_size=4))) for _ in range(draw(st.integers(1, 2)))]
                enc.append((17, rc.a_as4_path(segs4, ext=ext())))
                exp[17] = [[t, list(a)] for t, a in segs4]
            elif c == 18:
                a, ip = draw(vs.asn4), draw(vs.ipv4_addr)
                enc.append((18, rc.a_as4_aggregator(a, ip, ext=ext())))
                exp[18] = [a, ip]
            elif c == 32:
                tr = draw(st.lists(st.tuples(vs.u32, vs.u32, vs.u32), min_size=1, max_size=3))
                enc.append((32, rc.a_large_communities(tr, ext=ext())))
                exp[32] = ['%d:%d:%d' % t for t in tr]
            elif c == 99:
                v = draw(st.binary(max_size=10))
                enc.append((99, rc.a_unknown(99, v, ext=ext())))
                exp[99] = v.hex()
    ap = {}
    if shape in ('v4', 'wd'):
        def plist():
            out_b, out_e = b'', []
            for _ in range(draw(st.integers(1, 5))):
                p = draw(vs.prefix4())
                pid = draw(vs.u32) if addpath else None
                out_b += rc.prefix4(p, trailing=draw(st.integers(0, 255)), path_id=pid)
                out_e.append({'prefix': p, 'path_id': pid} if addpath else p)
            return out_b, out_e
        if shape == 'v4':
            nlri_b, exp_nlri = plist()
            if draw(st.booleans()):
                withdraw_b, exp_wd = plist()
        else:
            withdraw_b, exp_wd = plist()
        if addpath:
            ap = {'ipv4': True}
    elif shape in ('v6', 'v6-unreach'):
        routes = draw(st.lists(vs.prefix6(), min_size=0 if draw(st.integers(0, 7)) == 0 else 1, max_size=4))
        pids = [draw(vs.u32) if addpath else None for _ in routes]
        nl = b''.join(rc.prefix6(p, path_id=i) for p, i in zip(routes, pids))
        e = [{'prefix': p, 'path_id': i} if addpath else p for p, i in zip(routes, pids)]
        if shape == 'v6':
            nh = draw(st.one_of(vs.ipv6_global, vs.ipv6_addr))      # any IPv6 address, the ones below 2^32 included
            ll = draw(st.one_of(st.none(), vs.ipv6_linklocal))
            enc.append((14, rc.a_mp_reach(2, 1, rc.ip6(nh) + (rc.ip6(ll) if ll else b''), nl, ext=True)))
            exp[14] = {'afi_safi': [2, 1], 'nexthop': nh, 'nlri': e}
            if ll:
                exp[14]['linklocal_nexthop'] = ll
        else:
            enc.append((15, rc.a_mp_unreach(2, 1, nl, ext=True)))
            exp[15] = {'afi_safi': [2, 1], 'withdraw': e}
        if addpath:
            ap = {'ipv6': True}
    elif shape == 'vpn4':
        routes = draw(st.lists(st.tuples(vs.prefix4(), vs.rd_text(), vs.label), min_size=0 if draw(st.integers(0, 7)) == 0 else 1, max_size=3))
        pids = [draw(vs.u32) if addpath else None for _ in routes]
        nl = b''.join(rc.vpn_route(p, rc.rd(r), [lab], path_id=i) for (p, r, lab), i in zip(routes, pids))
        nh = draw(vs.ipv4_host)
        enc.append((14, rc.a_mp_reach(1, 128, b'\x00' * 8 + rc.ip4(nh), nl, ext=True)))
        e = []
        for (p, r, lab), i in zip(routes, pids):
            d = {'prefix': p, 'rd': r, 'label': [lab]}
            if addpath:
                d['path_id'] = i
            e.append(d)
        exp[14] = {'afi_safi': [1, 128], 'nexthop': {'rd': '0:0', 'str': nh}, 'nlri': e}
        if addpath:
            ap = {'vpnv4': True}
    elif shape == 'lu4':
        routes = draw(st.lists(st.tuples(vs.prefix4(), st.lists(vs.label, min_size=1, max_size=2)), min_size=0 if draw(st.integers(0, 7)) == 0 else 1, max_size=3))
        pids = [draw(vs.u32) if addpath else None for _ in routes]
        nl = b''.join(rc.labeled_route(p, labs, path_id=i) for (p, labs), i in zip(routes, pids))
        nh = draw(vs.ipv4_host)
        enc.append((14, rc.a_mp_reach(1, 4, rc.ip4(nh), nl, ext=True)))
        e = []
        for (p, labs), i in zip(routes, pids):
            d = {'prefix': p, 'label': list(labs)}
            if addpath:
                d['path_id'] = i
            e.append(d)
        exp[14] = {'afi_safi': [1, 4], 'nexthop': nh, 'nlri': e}
        if addpath:
            ap = {'ipv4_lu': True}
    order = draw(st.permutations(list(range(len(enc)))))
    attrs_b = b''.join(enc[i][1] for i in order)
    body = rc.update_body(withdraw_b, attrs_b, nlri_b)
    variants = []
    if ext_all:
        variants.append('ext-all')
    if addpath:
        variants.append('addpath')
    if list(order) != sorted(order):
        variants.append('order')
    return {'k': 'pos', 'asn4': asn4, 'ap': ap, 'body': body.hex(), 'shape': shape, 'variants': variants,
            'exp': {'attr': {str(k): v for k, v in exp.items()}, 'nlri': exp_nlri, 'withdraw': exp_wd}}


def check_positive(case):
    body = bytes.fromhex(case['body'])
    try:
        got = Update.parse(None, body, case['asn4'], case['ap'] or None)
    except Exception as e:
        return [('pos:parse-exception:%s:%s' % (exc_sig(e), case['shape']), repr(e))]
    feat = '+'.join(case['variants']) or 'plain'
    special = ''
    for code in ('14', '15'):
        v = case['exp']['attr'].get(code)
        if v and list(v['afi_safi']) == [2, 1]:
            r = v.get('nlri') or v.get('withdraw') or []
            if len(r) >= 2 and r[-1] == '::/0' and r[-2] == '::/0':
                special = 'trailing-2x-::/0:'
    if got.get('sub_error'):
        miss = None
        ga = got.get('attr') or {}
        for fl, tc, v, _ in rc.split_attrs(rc.split_update(body)[1]):
            if tc not in ga and tc != 29:
                miss = tc
                break
        return [('pos:%ssub-error:%s:shape=%s:attr=%s:%s' % (special, got['sub_error'], case['shape'], miss, 'addpath' if case['ap'] else 'noap'),
                 'well-formed UPDATE %s flagged sub_error=%r (variants %s)' % (body.hex()[:160], got['sub_error'], feat))]
    out = []
    exp = case['exp']
    for part in ('nlri', 'withdraw'):
        d = c07.diff(exp[part], got.get(part))
        if d:
            out.append(('pos:%s:%s:%s' % (part, d, 'addpath' if case['ap'] else 'noap'), 'expected %r got %r' % (exp[part], got.get(part))))
    ga = got.get('attr') or {}
    ea = {int(k): v for k, v in exp['attr'].items()}
    if set(ea) != set(ga):
        out.append(('pos:attr-keys:missing=%s,extra=%s' % (sorted(set(ea) - set(ga)), sorted(set(ga) - set(ea))), 'expected %r got %r' % (sorted(ea), sorted(ga))))
        return out
    for code in sorted(ea):
        d = c07.diff(ea[code], ga[code]) if code in (14, 15) else diff_path(ea[code], ga[code])
        if d:
            out.append(('pos:%sattr%d:%s:%s' % (special if code in (14, 15) else '', code, d,
                                                case['shape'] if code in (14, 15) else ('asn4' if case['asn4'] else 'asn2')),
                        'attribute %d encoded as %r decoded %r (variants %s)' % (code, ea[code], ga[code], feat)))
    return out


# ------------------------------------------------------------------------------------------ negative half
BASE = lambda: [rc.a_origin(0), rc.a_as_path([(2, [65002])], True), rc.a_next_hop('10.0.0.2')]  # noqa: E731


@st.composite
def negative_case(draw):
    kind = draw(st.sampled_from(['origin', 'prefix-len-nlri', 'prefix-len-withdraw', 'aspath-segtype', 'med-len', 'localpref-len',
                                 'originator-len', 'atomic-len', 'aggregator-len', 'nexthop-len', 'community-len',
                                 'extcommunity-len', 'largecommunity-len', 'clusterlist-len']))
    attrs = BASE()
    nlri = rc.prefix4('10.1.0.0/16')
    wd = b''
    asn4 = True
    if kind == 'origin':
        attrs[0] = rc.a_origin(draw(st.integers(3, 255)))
    elif kind == 'prefix-len-nlri':
        nlri = bytes([draw(st.integers(33, 255))]) + draw(st.binary(min_size=4, max_size=4)) + (nlri if draw(st.booleans()) else b'')
    elif kind == 'prefix-len-withdraw':
        wd = bytes([draw(st.integers(33, 255))]) + draw(st.binary(min_size=4, max_size=4))
    elif kind == 'aspath-segtype':
        t = draw(st.one_of(st.just(0), st.integers(5, 255)))
        attrs[1] = rc.attr(0x40, 2, bytes([t, 1]) + struct.pack('!I', 65002))
    elif kind in ('med-len', 'localpref-len', 'originator-len'):
        code = {'med-len': 4, 'localpref-len': 5, 'originator-len': 9}[kind]
        n = draw(st.sampled_from([0, 1, 2, 3, 5, 6, 8]))
        attrs.append(rc.attr(rc.attr_flags(code), code, b'\x01' * n))
    elif kind == 'atomic-len':
        attrs.append(rc.attr(0x40, 6, b'\x00' * draw(st.integers(1, 4))))
    elif kind == 'aggregator-len':
        n = draw(st.sampled_from([0, 1, 4, 5, 6, 7, 9, 10]))
        attrs.append(rc.attr(0xC0, 7, b'\x01' * n))
    elif kind == 'nexthop-len':
        attrs[2] = rc.attr(0x40, 3, b'\x0a' * draw(st.sampled_from([1, 2, 3, 5, 6, 7])))
    elif kind == 'community-len':
        attrs.append(rc.attr(0xC0, 8, b'\x01' * draw(st.sampled_from([1, 2, 3, 5, 6, 7]))))
    elif kind == 'extcommunity-len':
        attrs.append(rc.attr(0xC0, 16, b'\x00\x02' + b'\x01' * draw(st.sampled_from([1, 2, 5, 7, 8, 11]))))
    elif kind == 'largecommunity-len':
        attrs.append(rc.attr(0xC0, 32, b'\x01' * draw(st.sampled_from([1, 4, 8, 11, 13, 16]))))
    elif kind == 'clusterlist-len':
        attrs.append(rc.attr(0x80, 10, b'\x01' * draw(st.sampled_from([1, 2, 3, 5, 6, 7]))))
    order = draw(st.permutations(list(range(len(attrs)))))
    body = rc.update_body(wd, b''.join(attrs[i] for i in order), nlri)
    return {'k': 'neg', 'kind': kind, 'asn4': asn4, 'body': body.hex()}


def check_negative(case):
    body = bytes.fromhex(case['body'])
    try:
        got = Update.parse(None, body, case['asn4'])
    except Exception as e:
        return [('neg:parse-exception:%s:%s' % (case['kind'], exc_sig(e)), repr(e))]
    if not got.get('sub_error'):
        return [('neg:not-flagged:%s' % case['kind'], 'malformed (%s) UPDATE %s decoded without error: attr=%r nlri=%r withdraw=%r'
                 % (case['kind'], body.hex(), got.get('attr'), got.get('nlri'), got.get('withdraw')))]
    return []


def shards(tier):
    out = [{'name': 'positive-%d' % i, 'kind': 'pos', 'examples': 1500 if tier == 'quick' else 15000, 'hypothesis': True} for i in range(12)]
    out += [{'name': 'negative-%d' % i, 'kind': 'neg', 'examples': 1500 if tier == 'quick' else 15000, 'hypothesis': True} for i in range(4)]
    return out


def run_shard(spec, seed, col, tier):
    if spec['kind'] == 'pos':
        def body(case):
            res = check_positive(case)
            col.case({'k': 'pos', 'body': case['body'], 'asn4': case['asn4'], 'ap': case['ap']}, bool(case['variants']) or True,
                     labels=['pos', 'shape:' + case['shape']] + ['variant:' + v for v in case['variants']])
            for sig, detail in res:
                col.fail(sig, case, detail)
        hyp_run(col, positive_case(), body, seed, spec['examples'])
    else:
        def body(case):
            res = check_negative(case)
            col.case(case, True, labels=['neg:' + case['kind']])
            for sig, detail in res:
                col.fail(sig, case, detail)
        hyp_run(col, negative_case(), body, seed, spec['examples'])


def replay(case):
    return check_positive(case) if case['k'] == 'pos' else check_negative(case)
