"""C18 - message statistics equal what actually crossed the wire.

Generator: walks over the C01 alphabet extended with frames of every type whose length is below /
at / above the type's minimum, REST-initiated sends (update, route-refresh, bin_update) and
internal-queue sends.  Oracle after every step, through GET /v1/peer/<ip>/statistic: for the
current connection send[type] equals the frames of that type in the transport's write log and
receive[type] lies between the frames of that type with a valid length and all frames of that type.
"""
from hypothesis import strategies as st

from vlib import corpus
from vlib import refcodec as rc
from vlib import session as ss
from vlib.driver import Driver
from vlib.runner import hyp_run

PROPERTY = 'C18'
RULE = ('random walks over the C01 alphabet + raw frames of each type with body length below/at/above the minimum + '
        'well-formed UPDATEs of every address family / route type incl. families without a decoder, arriving in 1, 2, 3, 4, 9 or (grid) 200 TCP segments + '
        'REST sends (update, route-refresh, bin_update); statistic endpoint compared with the simulated transport after '
        'every step. Non-trivial = a step in which a NOTIFICATION is sent or >= 2 message types move; distinct by '
        'sequence.')
ASSUMPTIONS = ['statistics are those of the connection the state machine currently tracks; before the first connection '
               'there is nothing to compare']
EXHAUSTIVE = {'quick': False, 'thorough': False}

NAMES = {1: 'Opens', 2: 'Updates', 3: 'Notifications', 4: 'Keepalives', 5: 'RouteRefresh', 128: 'RouteRefresh'}
MINLEN = {1: 10, 2: 4, 3: 2, 4: 0, 5: 4, 128: 4}
EXACT = {4: 0, 5: 4, 128: 4}


class Mon(object):
    def __init__(self):
        self.rx = {}      # cid -> [(type, bodylen)]
        self.d = None


BODIES = corpus.update_bodies()
NLIVE = 14      # the first NLIVE entries of EXTRA need a live connection only, the others an Established session
EXTRA = [['rrfam', 2, 1, 5], ['rrfam', 1, 128, 128], ['rrfam', 25, 70, 5], ['rrfam', 65535, 255, 128],
         ['raw', 4, 1], ['raw', 3, 1], ['raw', 3, 0], ['raw', 5, 3], ['raw', 128, 5], ['raw', 1, 5], ['raw', 2, 3],
         ['notif', 'other', 6, 2, '03fffefd'], ['notif', 'other', 6, 4, 'c3'], ['notif', 'other', 7, 1, ''],
         ['rest-update'], ['rest-rr'], ['rest-bin'], ['queue-update'], ['rest-rr-unsupported'], ['rest-update-bad'],
         ['rest-rr-malformed'], ['rest-update-late'], ['rest-bin-late'], ['rest-update-big']]


def enabled(d):
    ev = d.enabled()
    if d.live():
        ev += [list(e) for e in EXTRA[:NLIVE]]
    if d.sim.state == 'ESTABLISHED':
        ev += [list(e) for e in EXTRA[NLIVE:]]
        ev.append(['updv'])       # a well-formed UPDATE of some family / route type: ['updv', k] = corpus body k
    return ev


def frame_of(d, ev):
    from vlib.driver import encode_event
    if ev[0] == 'raw':
        return rc.frame(ev[1], b'\x00' * ev[2])
    if ev[0] == 'rrfam':      # a ROUTE-REFRESH (type 5 or 128) for a family the agent may not have advertised: still a received message
        return rc.route_refresh(ev[1], ev[2], 0, ev[3])
    if ev[0] == 'updv':
        return rc.frame(rc.UPDATE, BODIES[ev[1] % len(BODIES)][1])
    return encode_event(d.sim, ev, d.nupd + 1)


def pieces(data, n):
    """data cut into n segments of (almost) equal size"""
    n = max(1, min(n, len(data)))
    size = -(-len(data) // n)
    return [data[i:i + size] for i in range(0, len(data), size)]


def apply(d, mon, ev):
    sim = d.sim
    nt = False
    k = ev[0]
    if k in ('raw', 'updv', 'rrfam'):
        c = d.live()[0]
        data = frame_of(d, ev)
        nseg = ev[2] if k == 'updv' and len(ev) > 2 else 1       # ['updv', k, n]: the message arrives in n TCP segments
        ok = True
        for piece in pieces(data, nseg):
            ok = bool(sim.reactor.peer_send(c, piece)) and ok
            sim.reactor.settle(fire_due=False)
        if ok:
            mon.rx.setdefault(c.id, []).append((ev[1], ev[2]) if k == 'raw' else ((ev[3], 4) if k == 'rrfam' else (rc.UPDATE, len(data) - 19)))
        sim.reactor.settle(fire_due=True)
        d.history.append(ev)
    elif k == 'rest-update':
        sim.rest('POST', '/v1/peer/10.0.0.2/send/update', {'attr': {'1': 0, '2': [[2, [65001]]], '3': '10.0.0.1'},
                                                           'nlri': ['10.%d.0.0/16' % (len(d.history) % 250)]})
        sim.reactor.settle(fire_due=True)
        d.history.append(ev)
    elif k in ('rest-update-late', 'rest-bin-late'):
        # the REST thread hands the message to the reactor (callFromThread); the reactor gets to it only after the next
        # event - which may be the one that makes the agent close the session.  Counted when queued, so nothing is
        # compared before that next event has been handled.
        if k == 'rest-update-late':
            sim.rest('POST', '/v1/peer/10.0.0.2/send/update', {'attr': {'1': 0, '2': [[2, [65001]]], '3': '10.0.0.1'},
                                                               'nlri': ['10.%d.1.0/24' % (len(d.history) % 250)]}, settle=False)
        else:
            sim.rest('POST', '/v1/peer/10.0.0.2/send/bin_update', {'binary_data': ss.marked_update(9)[0].hex()}, settle=False)
        d.history.append(ev)
        return [], False
    elif k == 'rest-update-big':
        # one request announcing 1200 prefixes (more than one 4096-octet UPDATE can hold): however the agent sends it, every
        # UPDATE frame that reaches the wire is counted once
        n0 = len(d.history) % 50
        sim.rest('POST', '/v1/peer/10.0.0.2/send/update', {'attr': {'1': 0, '2': [[2, [65001]]], '3': '10.0.0.1'},
                                                           'nlri': ['10.%d.%d.%d/32' % (n0, i >> 8, i & 255) for i in range(1200)]})
        sim.reactor.settle(fire_due=True)
        d.history.append(ev)
    elif k == 'rest-rr':
        sim.rest('POST', '/v1/peer/10.0.0.2/send/route-refresh', {'afi': 1, 'safi': 1})
        sim.reactor.settle(fire_due=True)
        d.history.append(ev)
    elif k == 'rest-rr-unsupported':
        sim.rest('POST', '/v1/peer/10.0.0.2/send/route-refresh', {'afi': 1 + len(d.history) % 2, 'safi': 128})
        sim.reactor.settle(fire_due=True)
        d.history.append(ev)
    elif k == 'rest-rr-malformed':
        # requests the agent cannot encode (fields outside their octets, wrong JSON types): counted only if something was written
        bodies = [{'afi': 'x', 'safi': 70000}, {'afi': 1, 'safi': 1, 'res': 300}, {'afi': 1, 'safi': 1, 'res': -1}, {'afi': 1, 'safi': 1, 'res': 'x'},
                  {'afi': 1, 'safi': 1, 'res': None}, {'afi': 1.5, 'safi': 1}, {'afi': 1, 'safi': 1.0}, {'afi': 70000, 'safi': 1}, {'afi': 1, 'safi': 256},
                  {'afi': 1}, {'safi': 1}, {'afi': [1], 'safi': {'x': 1}}]
        sim.rest('POST', '/v1/peer/10.0.0.2/send/route-refresh', bodies[len(d.history) % len(bodies)])
        sim.reactor.settle(fire_due=True)
        d.history.append(ev)
    elif k == 'rest-update-bad':
        sim.rest('POST', '/v1/peer/10.0.0.2/send/update', {'attr': {'1': 7, '2': [[2, [65001]]], '3': 'not-an-address'},
                                                           'nlri': ['10.3.0.0/16']})
        sim.reactor.settle(fire_due=True)
        d.history.append(ev)
    elif k == 'rest-bin':
        sim.rest('POST', '/v1/peer/10.0.0.2/send/bin_update', {'binary_data': ss.marked_update(7)[0].hex()})
        sim.reactor.settle(fire_due=True)
        d.history.append(ev)
    elif k == 'queue-update':
        sim.handler.inter_mq.put({'type': 'update', 'msg': {'attr': {1: 0, 2: [(2, [65001])], 3: '10.0.0.1'},
                                                            'nlri': ['10.200.0.0/16'], 'withdraw': []}})
        d.history.append(ev)
    else:
        live = d.live()
        c = live[0] if live else None
        is_peer_msg = k in ('open', 'ka', 'upd', 'notif', 'rr', 'bad_marker', 'bad_len', 'bad_type')
        data = frame_of(d, ev) if is_peer_msg else None
        ntr = len(sim.reactor.transcript)
        d.apply(ev)
        if is_peer_msg and c is not None:
            delivered = any(kind == 'deliver' and cid == c.id for _, kind, cid, _ in sim.reactor.transcript[ntr:])
            if delivered and k not in ('bad_marker', 'bad_len', 'bad_type'):
                mtype = data[18]
                mon.rx.setdefault(c.id, []).append((mtype, len(data) - 19))
    return check(d, mon, ev)


def check(d, mon, ev):
    sim = d.sim
    out = []
    # whatever the REST thread handed to the reactor earlier is carried out before the statistic is read
    sim.reactor.settle(fire_due=False)
    proto = sim.fsm.protocol
    if proto is None:
        return out, False
    cur = None
    for c in sim.reactor.connectors:
        if c.protocol is proto:
            cur = c
    if cur is None:
        return out, False
    code, body = sim.rest('GET', '/v1/peer/10.0.0.2/statistic')
    if code != 200 or not body:
        out.append(('statistic-endpoint:%s' % code, 'GET statistic answered %s %r' % (code, body)))
        return out, False
    sent = {}
    try:
        for mt, b in rc.split_frames(b''.join(x for _, x in cur.transport.written)):
            sent[NAMES.get(mt, 'other')] = sent.get(NAMES.get(mt, 'other'), 0) + 1
    except rc.WalkError as e:
        out.append(('unframed-output', str(e)))
        return out, False
    for name in ('Opens', 'Updates', 'Notifications', 'Keepalives', 'RouteRefresh'):
        if body['send'].get(name) != sent.get(name, 0):
            out.append(('send:%s:%s' % (name, 'over' if body['send'].get(name, 0) > sent.get(name, 0) else 'under'),
                        'statistic says %r sent %s, the wire carried %d (after %r)' % (body['send'].get(name), name, sent.get(name, 0), ev)))
    lo, hi = {}, {}
    for mt, ln in mon.rx.get(cur.id, []):
        n = NAMES.get(mt)
        if n is None:
            continue
        hi[n] = hi.get(n, 0) + 1
        valid = ln == EXACT[mt] if mt in EXACT else ln >= MINLEN[mt]
        if valid:
            lo[n] = lo.get(n, 0) + 1
    for name in ('Opens', 'Updates', 'Notifications', 'Keepalives', 'RouteRefresh'):
        v = body['receive'].get(name)
        if v is None or not (lo.get(name, 0) <= v <= hi.get(name, 0)):
            out.append(('receive:%s:%s' % (name, 'over' if (v or 0) > hi.get(name, 0) else 'under'),
                        'statistic says %r received %s, delivered: %d with valid length, %d in all (after %r)'
                        % (v, name, lo.get(name, 0), hi.get(name, 0), ev)))
    nt = sent.get('Notifications', 0) > 0 or len([k for k in sent if sent[k]]) + len([k for k in hi if hi[k]]) >= 3
    return out, nt


def pick(en, choice):
    weighted = []
    for ev in en:
        w = 4 if ev[0] in ('ok', 'tick', 'ka') or (ev[0] == 'open' and ev[1] == 'valid') else 1
        if ev[0] in ('raw', 'rrfam', 'rest-update', 'rest-rr', 'upd', 'rr', 'queue-update', 'rest-bin', 'rest-rr-unsupported', 'rest-update-bad', 'rest-rr-malformed',
                     'rest-update-late', 'rest-bin-late', 'rest-update-big'):
            w = 2
        if ev[0] == 'stop':
            w = 1
        if ev[0] == 'updv':
            w = 3
        weighted += [ev] * w
    ev = weighted[choice % len(weighted)]
    if ev == ['updv']:
        ev = ['updv', (choice // len(weighted)) % len(BODIES)]
        nseg = [1, 1, 2, 3, 4, 9][(choice // 11) % 6]
        if nseg > 1:
            ev.append(nseg)
    return ev


def run(cfg, choices=None, events=None):
    d = Driver({k: v for k, v in cfg.items() if k != 'rib'}, model=False, sim_config={'rib': bool(cfg.get('rib'))})
    mon = Mon()
    res = []
    nontrivial = False
    d.apply(['boot'])
    seq = choices if choices is not None else events[1:]
    for x in seq:
        en = enabled(d)
        ev = pick(en, x) if choices is not None else list(x)
        if ev not in en and not (ev[0] == 'updv' and ['updv'] in en and len(ev) in (2, 3)):
            return d, [], False
        r, nt = apply(d, mon, ev)
        nontrivial = nontrivial or nt
        if r:
            res = r
            break
    return d, res, nontrivial


def kinds_case(case):
    """one well-formed UPDATE of the given kind on a fresh Established session: received Updates goes from 0 to 1"""
    name, body = BODIES[case['body']]
    sim, c = ss.new_established(as4=True, rib=bool(case.get('rib')))
    r = sim.reactor
    for i in range(case.get('before', 0)):
        r.peer_send(c, ss.marked_update(i + 1)[0])
        r.settle(fire_due=True)
    code0, b0 = sim.rest('GET', '/v1/peer/10.0.0.2/statistic')
    for piece in pieces(rc.frame(rc.UPDATE, body), case.get('seg', 1)):
        r.peer_send(c, piece)
        r.settle(fire_due=True)
    code1, b1 = sim.rest('GET', '/v1/peer/10.0.0.2/statistic')
    if code0 != 200 or code1 != 200:
        return [('statistic-endpoint:%s' % code1, 'GET statistic answered %s / %s' % (code0, code1))]
    out = []
    want = dict(b0['receive'])
    want['Updates'] = want.get('Updates', 0) + 1
    for name_ in ('Opens', 'Updates', 'Notifications', 'Keepalives', 'RouteRefresh'):
        if b1['receive'].get(name_) != want.get(name_):
            out.append(('receive:%s:%s:after-one-update' % (name_, 'under' if (b1['receive'].get(name_) or 0) < want.get(name_, 0) else 'over'),
                        'one well-formed UPDATE (%s, %s) delivered: statistic %s went %r -> %r'
                        % (name, body.hex()[:80], name_, b0['receive'].get(name_), b1['receive'].get(name_))))
    return out


def scenario(case):
    """scripted, adaptive histories in which an old timer outlives its connection: after `head` the peer is unreachable
    (every attempt refused / timing out) for `span` seconds; the statistic is checked after every step"""
    cfg = case['cfg']
    d = Driver({k: v for k, v in cfg.items() if k != 'rib'}, model=False)
    mon = Mon()
    d.apply(['boot'])
    for ev in case['head']:
        en = enabled(d)
        if list(ev) not in en and not (ev[0] == 'updv' and ['updv'] in en):
            return [('harness:scenario-event-not-enabled', '%r in state %s' % (ev, d.sim.state))]
        res, _ = apply(d, mon, list(ev))
        if res:
            return res
    end = d.sim.now + case['span']
    guard = 0
    while d.sim.now < end and guard < 400:
        guard += 1
        en = enabled(d)
        ev = [case['fail']] if [case['fail']] in en else (['tick'] if ['tick'] in en else None)
        if ev is None:
            break
        res, _ = apply(d, mon, ev)
        if res:
            return res
    return []


SCENARIOS = [{'cfg': c, 'head': h, 'fail': f, 'span': 400}
             for c in ({'hold': 180, 'idle_hold': 30, 'connect_retry': 60}, {'hold': 9, 'idle_hold': 5, 'connect_retry': 60})
             for f in ('refused', 'timeout')
             for h in ([['ok'], ['close']],                                             # peer drops TCP in OpenSent
                       [['ok'], ['open', 'valid', 90], ['close']],                     # ... in OpenConfirm
                       [['ok'], ['open', 'valid', 90], ['ka'], ['close']],             # ... in Established
                       [['ok'], ['open', 'valid', 90], ['ka'], ['bad_marker']],
                       [['ok'], ['open', 'h0', 0], ['ka'], ['notif', 'other']],
                       [['refused'], ['tick'], ['ok'], ['close']])]


# every REST / queue event once for sure, on an Established session, followed by two KEEPALIVEs of the peer (the agent's
# internal queue is drained when a KEEPALIVE arrives) - the walks reach these only with some probability
SCENARIOS += [{'cfg': {'hold': 180, 'idle_hold': 30, 'connect_retry': 60}, 'head': [['ok'], ['open', 'valid', 90], ['ka']] + pre + [e, ['ka'], ['ka'], e, ['ka']],
               'fail': 'refused', 'span': 0}
              for e in EXTRA[NLIVE:] for pre in ([], [['ka']], [['updv', 0, 3]])]


SCENARIOS += [{'cfg': {'hold': 180, 'idle_hold': 30, 'connect_retry': 60}, 'head': [['ok'], ['open', 'valid', 90], ['ka'], e, ['ka'], e],
               'fail': 'refused', 'span': 0} for e in EXTRA[:4]]


def shards(tier):
    return [{'name': 'update-kinds', 'kind': 'kinds'}, {'name': 'scenarios', 'kind': 'scenarios'}] + [{'name': 'walks-%d' % i, 'kind': 'hyp', 'examples': 500 if tier == 'quick' else 8000, 'hypothesis': True,
             'steps': 40 if tier == 'quick' else 80} for i in range(8 if tier == 'quick' else 16)]


def run_shard(spec, seed, col, tier):
    if spec['kind'] == 'scenarios':
        for i, case in enumerate(SCENARIOS):
            res = scenario(case)
            c = dict(case, k='scenario')
            col.case(c, True, labels=['scenario'])
            for sig, detail in res:
                col.fail(sig, c, detail)
        return
    if spec['kind'] == 'kinds':
        for k in range(len(BODIES)):
            for before, rib, seg in ((0, False, 1), (2, False, 1), (0, True, 1), (2, True, 1), (0, False, 2), (1, False, 3), (0, True, 4), (0, False, 200)):
                case = {'k': 'kinds', 'body': k, 'before': before, 'rib': rib, 'seg': seg, 'name': BODIES[k][0]}
                res = kinds_case(case)
                col.case(case, True, labels=['update-kinds'])
                for sig, detail in res:
                    col.fail(sig, case, detail)
        return

    def body(case):
        d, res, nt = run(case['cfg'], choices=case['choices'])
        explicit = {'cfg': case['cfg'], 'events': d.history}
        col.case(explicit, nt, labels=['walk-ended:' + d.sim.state])
        for sig, detail in res:
            col.fail(sig, explicit, detail)
    strat = st.fixed_dictionaries({'cfg': st.sampled_from([{'hold': 180, 'idle_hold': 30, 'connect_retry': 60},
                                                           {'hold': 9, 'idle_hold': 5, 'connect_retry': 60},
                                                           {'hold': 180, 'idle_hold': 30, 'connect_retry': 60, 'rib': True}]),
                                   'choices': st.lists(st.integers(0, 99999), min_size=spec['steps'] // 2, max_size=spec['steps'])})
    hyp_run(col, strat, body, seed, spec['examples'])


def replay(case):
    if case.get('k') == 'kinds':
        return kinds_case(case)
    if case.get('k') == 'scenario':
        return scenario(case)
    return run(case['cfg'], events=case['events'])[1]
