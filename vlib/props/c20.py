"""C20 - on-disk message log stays well-formed and gap-free across rotation / restart / crash.

Real DefaultHandler on a scratch directory (created per case under the system temp dir and removed
afterwards), virtual clock (strictly increasing, or coarse: several readings per tick).  Histories over every handler callback with
JSON-safe payloads, small rotation thresholds, restarts and crashes in the middle of a write
(the newest file truncated to size_before_last_write + k, then restart).  Final audit of all files.
"""
import itertools
import json
import os
import shutil
import tempfile

from hypothesis import strategies as st

from vlib import env
env.install()

from oslo_config import cfg  # noqa: E402
import yabgp.config  # noqa: E402,F401
from yabgp.handler import default_handler as dh  # noqa: E402
from vlib.runner import hyp_run  # noqa: E402

PROPERTY = 'C20'
RULE = ('histories over all DefaultHandler callbacks (write_keepalive on/off) with rotation thresholds forcing 0..k '
        'rotations, restart after any event, crash inside the last write at a generated (exhaustive tier: every) byte '
        'offset followed by restart, then further events and an audit of all files. Non-trivial = >= 1 rotation and >= 1 '
        'restart, or a torn write; distinct by history. Peer address spelled as IPv4, lower-case and upper-case IPv6; update '
        'payloads synthetic (also 10-20 KB records of 500 / 1000 prefixes) and as decoded by yabgp from one well-formed UPDATE '
        'per address family. Rotation thresholds from 0 (every record rotates) up; clock strictly increasing or coarser than the event rate.')
ASSUMPTIONS = ['"legacy" histories start on a directory that holds a log of an earlier release (lines are Python lists [t, seq, type, msg, '
               'afi_safi], which the agent still reads when it looks for the last sequence number): those lines are not judged, numbering continues after them',
               'update payloads are synthetic JSON-safe ones plus what yabgp itself decodes from one well-formed UPDATE per address '
               'family (octet-string results only where stdlib json and simplejson both refuse them)',
               'torn-write model: a prefix of the bytes of the last append survives (append-only file, no reordering)',
               'payloads are limited to types that stdlib json and simplejson serialise identically',
               'a restart closes the old file handle (the data was already flushed and fsynced by write_msg)']
EXHAUSTIVE = {'quick': False, 'thorough': False}
CONF = cfg.CONF
PEER = '10.0.0.2'
# the configured peer address as the operator wrote it (oslo keeps the spelling); the handler's tables are keyed by its
# lower-case form
PEERS = ['10.0.0.2', '2001:db8::7', '2001:DB8::7', 'FE80::A']


class Clock(object):
    """strict: every reading is later than the one before; coarse: a clock with a tick longer than the time between
    two events (several consecutive readings return the same value)"""

    def __init__(self, coarse=False):
        self.t = 1600000000.0
        self.coarse = coarse
        self.n = 0

    def time(self):
        self.n += 1
        if not self.coarse or self.n % 7 == 0:
            self.t += 0.25
        return self.t

    def __getattr__(self, n):
        import time as _t
        return getattr(_t, n)


class FakeFactory(object):
    def __init__(self, addr):
        self.peer_addr = addr


class FakePeer(object):
    def __init__(self, addr=PEER):
        self.factory = FakeFactory(addr)
        self.msg_recv_stat = {'Keepalives': 1}


PAYLOADS = [
    {'attr': {'1': 0, '2': [[2, [65001, 65002]]], '3': '10.0.0.1'}, 'nlri': ['10.0.0.0/24'], 'withdraw': [], 'afi_safi': 'ipv4'},
    {'attr': {}, 'nlri': [], 'withdraw': ['10.0.0.0/24', '10.0.1.0/24'], 'afi_safi': 'ipv4'},
    {'attr': {'14': {'afi_safi': [2, 1], 'nexthop': '2001:db8::1', 'nlri': ['2001:db8::/32'] * 6}}, 'nlri': [], 'withdraw': [], 'afi_safi': 'ipv6'},
    {'attr': {'8': ['NO_EXPORT', '1:1'], '5': 100, 'x': 'line1\nline2 é "quoted" {brace}'}, 'nlri': ['0.0.0.0/0'], 'withdraw': [], 'afi_safi': 'ipv4'},
    None,
    {'error': 'Cease', 'sub_error': 'Administrative shutdown', 'data': "b''"},
    {'afi': 1, 'res': 0, 'safi': 1},
    'Connection was refused by other side: 111: Connection refused.',
]


def _decoded_payloads():
    """what the protocol layer really hands to update_received: yabgp's own decoding of one well-formed UPDATE per
    address family.  Results holding octet strings are kept only when some of them are not valid UTF-8: those fail to
    serialise under stdlib json (our stand-in) and under simplejson alike; valid-UTF-8 octet strings are left out
    because simplejson would decode them while stdlib json refuses (no sound expectation from here)."""
    from vlib import corpus
    from yabgp.message.update import Update
    from yabgp.common import constants as bc

    def octet_strings(o):
        if isinstance(o, bytes):
            yield o
        elif isinstance(o, dict):
            for v in o.values():
                for x in octet_strings(v):
                    yield x
        elif isinstance(o, (list, tuple)):
            for v in o:
                for x in octet_strings(v):
                    yield x
    out = []
    for name, body in corpus.update_bodies():
        d = Update.parse(1600000000.0, body, True)
        if d.get('sub_error'):
            continue
        fam = None
        for code in (14, 15):
            if d['attr'].get(code):
                fam = bc.AFI_SAFI_DICT.get(tuple(d['attr'][code]['afi_safi']))
        payload = {'attr': d['attr'], 'nlri': d['nlri'], 'withdraw': d['withdraw'], 'afi_safi': fam or 'ipv4'}
        bs = list(octet_strings(payload))
        if bs:
            fails_everywhere = False
            for b in bs:
                try:
                    b.decode('utf-8')
                except UnicodeDecodeError:
                    fails_everywhere = True      # one undecodable octet string makes either library give up
            if not fails_everywhere:
                continue
        out.append((name, payload))
    return out


DECODED = _decoded_payloads()


# records far longer than a BGP message (a fully packed UPDATE lists ~1000 prefixes; its JSON text is 10-20 KB)
BIG = [{'attr': {'1': 0, '2': [[2, [65001, 65002]]], '3': '10.0.0.1'}, 'nlri': ['10.%d.%d.0/24' % (i >> 8, i & 255) for i in range(n)],
        'withdraw': [], 'afi_safi': 'ipv4'} for n in (500, 1000)]


# payloads neither json library can serialise (tuple keys, octet strings that are not UTF-8, sets, nesting of those):
# still exactly one complete record per event
HOSTILE = [
    {'attr': {(1, 1): 'x'}, 'nlri': [], 'withdraw': [], 'afi_safi': 'ipv4'},
    {'attr': {'14': {'afi_safi': (2, 133), 'nlri': b'\xff\xfe'}}, 'nlri': [], 'withdraw': [], 'afi_safi': None},
    {'attr': {'8': {'NO_EXPORT', '1:1'}}, 'nlri': [], 'withdraw': [], 'afi_safi': 'ipv4'},
    {'attr': {'x': {(25, 70): {b'\xc3': {1, 2}}}}, 'nlri': [(1, 2)], 'withdraw': [], 'afi_safi': 'ipv4'},
]


def payload_for(kind, idx):
    if kind in ('update_received', 'on_update_error'):
        if idx >= 300:
            return HOSTILE[(idx - 300) % len(HOSTILE)]
        if idx >= 200:
            return BIG[(idx - 200) % len(BIG)]
        if idx >= 100:
            return DECODED[(idx - 100) % len(DECODED)][1]
        return PAYLOADS[idx % 4]
    return PAYLOADS[idx % len(PAYLOADS)]


EVENTS = ['update_received', 'on_update_error', 'keepalive_received', 'open_received', 'send_open', 'route_refresh_received',
          'notification_received', 'on_connection_lost', 'on_connection_failed', 'on_established']


class Run(object):
    def __init__(self, max_size, write_keepalive, peer=PEER, coarse_clock=False, legacy=0):
        self.addr = peer
        self.dir = tempfile.mkdtemp(prefix='verif-c20-')
        self.clock = Clock(coarse_clock)
        dh.time = self.clock
        CONF.set_override('write_disk', True, group='message')
        CONF.set_override('write_dir', self.dir, group='message')
        CONF.set_override('write_keepalive', bool(write_keepalive), group='message')
        CONF.set_override('write_msg_max_size', max_size, group='message')     # bytes (the agent multiplies MB itself)
        CONF.bgp.running_config = {'remote_addr': peer}
        self.write_keepalive = write_keepalive
        self.peer = FakePeer(peer)
        self.h = None
        self.expected = 0        # complete records that must be on disk
        self.torn = []           # (file, surviving prefix bytes, full record bytes)
        self.failures = []
        self.dead = False
        self.rotations = 0
        self.restarts = 0
        # 'legacy': the directory already holds a log written by an earlier yabgp release, whose lines are Python lists
        # [t, seq, type, msg, afi_safi] (the agent still reads that format when it looks for the last sequence number):
        # numbering goes on after it
        self.legacy = []
        if legacy:
            os.makedirs(self.path())
            for i in range(1, legacy + 1):
                self.legacy.append(('%r\n' % ([1500000000.0 + i, i, 2, {'attr': {1: 0, 2: [(2, [65001])], 3: '10.0.0.1'}, 'nlri': ['10.%d.0.0/16' % i],
                                                                          'withdraw': []}, (1, 1)],)).encode())
            with open(os.path.join(self.path(), '1500000000.5.msg'), 'wb') as fh:
                fh.write(b''.join(self.legacy))
            self.expected = legacy
        self.start()

    def path(self):
        return os.path.join(self.dir, self.addr.lower(), 'msg')

    def files(self):
        p = self.path()
        return sorted(os.listdir(p)) if os.path.isdir(p) else []

    def start(self):
        if self.h is not None:
            for _, (mp, fh) in list(self.h.peer_files.items()):
                try:
                    fh.close()
                except Exception:
                    pass
        try:
            h = dh.DefaultHandler()
            h.init()
            self.h = h
        except BaseException as e:  # noqa - SystemExit included
            self.failures.append(('restart-fails:%s' % type(e).__name__,
                                  'DefaultHandler().init() raised %r with files %r' % (e, self.files())))
            self.h = None
            return False
        return True

    def event(self, kind, payload):
        """-> (bytes appended to the newest file before rotation, file name) or None if nothing is logged"""
        h, p = self.h, self.peer
        nfiles = len(self.files())
        fh0 = self.h.peer_files[self.addr.lower()][1]
        cur = fh0.name
        before = os.path.getsize(cur)
        t = self.clock.time()
        try:
            self._callback(kind, payload, h, p, t)
        except Exception as e:  # noqa - a callback that raises has not logged its event
            from vlib.util import exc_sig
            self.failures.append(('callback-raises:%s' % exc_sig(e), '%s raised %r (files %r)' % (kind, e, self.files())))
            self.dead = True       # the history ends here
            return None
        logged = not (kind == 'on_established' or (kind == 'keepalive_received' and not self.write_keepalive))
        if logged:
            self.expected += 1
        if len(self.files()) > nfiles or self.h.peer_files[self.addr.lower()][1] is not fh0:
            self.rotations += 1
        after = os.path.getsize(cur)
        return (cur, before, after) if logged else None

    def _callback(self, kind, payload, h, p, t):
        if kind == 'update_received':
            h.update_received(p, t, payload)
        elif kind == 'on_update_error':
            h.on_update_error(p, t, payload)
        elif kind == 'keepalive_received':
            h.keepalive_received(p, t)
        elif kind == 'open_received':
            h.open_received(p, t, payload)
        elif kind == 'send_open':
            h.send_open(p, t, payload)
        elif kind == 'route_refresh_received':
            h.route_refresh_received(p, payload, 5)
        elif kind == 'notification_received':
            h.notification_received(p, payload)
        elif kind == 'on_connection_lost':
            h.on_connection_lost(p)
        elif kind == 'on_connection_failed':
            h.on_connection_failed(self.addr, payload)
        elif kind == 'on_established':
            h.on_established(self.addr, t)

    def tear(self, span, k):
        """crash in the middle of the last write: only the first k bytes of the record reached the disk"""
        cur, before, after = span
        n = after - before
        if n < 2:
            return False
        k = 1 + (k % (n - 1))
        newest = os.path.join(self.path(), self.files()[-1])
        if os.path.abspath(newest) != os.path.abspath(cur):
            # the write was followed by a rotation: the record is complete in the older file; the
            # crash happens right after the (empty) new file was created
            return False
        with open(cur, 'rb') as fh:
            data = fh.read()
        full = data[before:after]
        with open(cur, 'r+b') as fh:
            fh.truncate(before + k)
        if k == n - 1 and full.endswith(b'\n'):
            # only the line terminator was lost: the record itself is complete and counts
            return True
        self.torn.append((os.path.basename(cur), full[:k], full))
        self.expected -= 1
        return True

    def audit(self):
        out = self.failures
        seqs = []
        bad = []
        for fn in self.files():
            with open(os.path.join(self.path(), fn), 'rb') as fh:
                data = fh.read()
            lines = data.split(b'\n')
            if lines and lines[-1] == b'':
                lines = lines[:-1]
            for ln in lines:
                if ln + b'\n' in self.legacy:
                    seqs.append(self.legacy.index(ln + b'\n') + 1)
                    continue
                try:
                    rec = json.loads(ln.decode('utf-8'))
                    if not isinstance(rec, dict):
                        raise ValueError('not an object')
                except ValueError:
                    bad.append((fn, ln))
                    continue
                if set(rec) != {'t', 'seq', 'type', 'msg'}:
                    out.append(('record-keys', 'line with keys %r in %s' % (sorted(rec), fn)))
                seqs.append(rec.get('seq'))
        # torn artefacts
        torn_left = list(self.torn)
        for fn, ln in bad:
            m = next((t for t in torn_left if t[0] == fn and ln == t[1].rstrip(b'\n')), None)
            if m is not None:
                torn_left.remove(m)
                continue
            glued = next((t for t in self.torn if t[0] == fn and ln.startswith(t[1].rstrip(b'\n')) and len(ln) > len(t[1].rstrip(b'\n'))), None)
            if glued is not None:
                out.append(('record-glued-to-torn-tail', 'line %r = torn prefix + a later record (file %s)' % (ln[:120], fn)))
            else:
                out.append(('malformed-line', 'non-JSON line %r in %s, torn writes injected: %d' % (ln[:120], fn, len(self.torn))))
        if len(seqs) != self.expected:
            out.append(('record-count:%s' % ('fewer' if len(seqs) < self.expected else 'more'),
                        '%d complete records on disk, %d events were reported' % (len(seqs), self.expected)))
        for a, b in zip(seqs, seqs[1:]):
            if b != a + 1:
                kind = 'reused' if b <= a else 'gap'
                ctx = 'after-torn-write' if self.torn else ('after-rotation' if self.rotations else 'plain')
                out.append(('sequence:%s:%s' % (kind, ctx), 'sequence numbers %r (files %r)' % (seqs, self.files())))
                break
        if len(set(seqs)) != len(seqs) and not any(f[0].startswith('sequence:reused') for f in out):
            out.append(('sequence:duplicate', 'sequence numbers %r' % (seqs,)))
        return out

    def cleanup(self):
        try:
            if self.h is not None:
                for _, (mp, fh) in list(self.h.peer_files.items()):
                    fh.close()
        except Exception:
            pass
        shutil.rmtree(self.dir, ignore_errors=True)


def run_case(case):
    run = Run(case['max_size'], case['write_keepalive'], PEERS[case.get('peer', 0) % len(PEERS)], case.get('clock') == 'coarse',
              case.get('legacy', 0))
    try:
        for op in case['ops']:
            if run.h is None or run.dead:
                break
            if op[0] == 'ev':
                run.event(EVENTS[op[1]], payload_for(EVENTS[op[1]], op[2]))
            elif op[0] == 'restart':
                run.restarts += 1
                run.start()
            elif op[0] == 'torn':
                span = run.event(EVENTS[op[1]], payload_for(EVENTS[op[1]], op[2]))
                if span is not None:
                    run.tear(span, op[3])
                run.restarts += 1
                run.start()
        res = run.audit()
        nt = (run.rotations >= 1 and run.restarts >= 1) or bool(run.torn)
        return res, nt, {'rotations': run.rotations, 'restarts': run.restarts, 'torn': len(run.torn)}
    finally:
        run.cleanup()


ev_op = st.tuples(st.just('ev'), st.sampled_from([0, 0, 0, 1, 2, 3, 4, 5, 6, 7, 8, 9]),
                  st.one_of(st.integers(0, 7), st.integers(0, 7), st.integers(100, 100 + len(DECODED) - 1),
                            st.sampled_from([200, 201]), st.sampled_from([300, 301, 302, 303]))).map(list)
op = st.one_of(ev_op, ev_op, ev_op, st.just(['restart']),
               st.tuples(st.just('torn'), st.sampled_from([0, 0, 1, 3, 6, 7]), st.one_of(st.integers(0, 7), st.sampled_from([200, 201])),
                         st.one_of(st.integers(0, 400), st.integers(0, 30000))).map(list))
case_strategy = st.fixed_dictionaries({'max_size': st.sampled_from([0, 1, 60, 150, 150, 400, 1000, 10 ** 9]), 'write_keepalive': st.booleans(),
                                       'clock': st.sampled_from(['strict', 'strict', 'coarse']),
                                       'legacy': st.sampled_from([0, 0, 0, 0, 1, 5, 70]),
                                       'peer': st.sampled_from([0, 0, 1, 2, 3]),
                                       'ops': st.lists(op, min_size=1, max_size=30)})


def shards(tier):
    out = [{'name': 'histories-%d' % i, 'kind': 'hyp', 'examples': 1200 if tier == 'quick' else 25000, 'hypothesis': True}
           for i in range(8 if tier == 'quick' else 14)]
    out += [{'name': 'exhaustive-%d' % i, 'kind': 'exh', 'part': i, 'parts': 8 if tier == 'quick' else 2,
             'len': 3 if tier == 'quick' else 4} for i in range(8 if tier == 'quick' else 2)]
    if tier == 'thorough':
        out += [{'name': 'all-offsets-%d' % i, 'kind': 'offsets', 'part': i, 'parts': 4} for i in range(4)]
    else:
        # (quick tier: every offset of the one payload that holds non-ASCII text, where a cut can fall inside a character)
        out += [{'name': 'all-offsets-nonascii-%d' % i, 'kind': 'offsets', 'part': i, 'parts': 2, 'payloads': [3]} for i in range(2)]
    return out


def run_shard(spec, seed, col, tier):
    if spec['kind'] == 'hyp':
        def body(case):
            res, nt, info = run_case(case)
            col.case(case, nt, labels=['rot:%d' % min(info['rotations'], 3), 'restarts:%d' % min(info['restarts'], 3), 'torn:%d' % min(info['torn'], 2)])
            for sig, detail in res:
                col.fail(sig, case, detail)
        hyp_run(col, case_strategy, body, seed, spec['examples'])
    elif spec['kind'] == 'exh':
        alpha = [['ev', 0, 0], ['ev', 0, 2], ['ev', 7, 4], ['restart'], ['torn', 0, 0, 5], ['torn', 0, 2, 150], ['torn', 7, 4, 1],
                 ['ev', 0, 201], ['torn', 0, 201, 9000], ['ev', 0, 300], ['ev', 0, 303]]
        seqs = list(itertools.product(range(len(alpha)), repeat=spec['len']))[spec['part']::spec['parts']]
        for ms, clock, legacy in ((150, 'strict', 0), (10 ** 9, 'strict', 0), (0, 'coarse', 0), (150, 'coarse', 0), (10 ** 9, 'strict', 3), (150, 'strict', 2)):
            for s in seqs:
                case = {'max_size': ms, 'write_keepalive': False, 'clock': clock, 'legacy': legacy, 'ops': [alpha[i] for i in s] + [['ev', 0, 1]]}
                res, nt, info = run_case(case)
                col.case(case, nt, labels=['exhaustive'])
                for sig, detail in res:
                    col.fail(sig, case, detail)
    else:
        # every byte offset of the last record, for each payload, with and without an earlier rotation
        n = 0
        for pi in spec.get('payloads', range(4)):
            for pre in ([], [['ev', 0, 0], ['ev', 0, 2]]):
                for k in range(spec['part'], 400, spec['parts']):
                    # (threshold 150: a record longer than that is followed by a rotation and cannot be torn any more, so the
                    # large threshold is run as well)
                    for ms in (150, 10 ** 9):
                        case = {'max_size': ms, 'write_keepalive': False, 'ops': pre + [['torn', 0, pi, k], ['ev', 0, 1], ['restart'], ['ev', 7, 4]]}
                        res, nt, info = run_case(case)
                        col.case(case, nt, labels=['all-offsets', 'torn:%d' % min(info['torn'], 2)])
                        for sig, detail in res:
                            col.fail(sig, case, detail)


def replay(case):
    return run_case(case)[0]
