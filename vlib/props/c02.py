"""C02 - session self-heals: never stuck, nothing in the past blocks re-establishment.

Generator: adversarial event prefixes (C01 alphabet without operator stop, biased to the poison
suspects) x timer configurations, then a cooperative peer takes over.  Oracle: Established within
idle_hold + max(connect_retry, 30) + 1 s of virtual time, still Established three hold times
later, and the OPEN of the final session is byte-identical to the OPEN of a fresh boot.
"""
from hypothesis import strategies as st

from vlib import refcodec as rc
from vlib import session as ss
from vlib.driver import Driver
from vlib.runner import hyp_run
from vlib.sim import Sim

PROPERTY = 'C02'
RULE = ('adversarial prefixes over the C01 alphabet (no operator stop; biased to peer OPEN hold 0/1/2/3, bad '
        'version/AS, malformed frames, refused/timed-out attempts, resets) x {(hold,idle_hold,connect_retry)} = '
        '{(180,30,60),(9,5,60),(30,1,40),(180,30,30),(0,30,60),...}, peer messages whole or in several TCP segments, then a cooperative peer (prompt, or answering the OPEN 2..200 s later). Non-trivial = prefix contains '
        'a failed connection or a protocol error; distinct by (prefix, configuration).')
ASSUMPTIONS = [
    'cooperative peer: accepts a pending attempt at once, closes an inherited connection, answers OPEN with a valid '
    'OPEN (hold 90) and KEEPALIVE, then KEEPALIVE every H/3',
    'bound = idle_hold_time + max(connect_retry_time, 30) + 1 s from the hand-over (+ the latency of the peer, when it is a slow one)',
    'a slow cooperative peer answers the agent\'s OPEN 2..200 s later (inside the 240 s an agent waits in OpenSent)',
]
EXHAUSTIVE = {'quick': False, 'thorough': False}

CONFIGS = [{'hold': 180, 'idle_hold': 30, 'connect_retry': 60}, {'hold': 9, 'idle_hold': 5, 'connect_retry': 60},
           {'hold': 30, 'idle_hold': 1, 'connect_retry': 40}, {'hold': 180, 'idle_hold': 30, 'connect_retry': 30},
           {'hold': 0, 'idle_hold': 30, 'connect_retry': 60}, {'hold': 180, 'idle_hold': 0, 'connect_retry': 60},
           {'hold': 90, 'idle_hold': 0, 'connect_retry': 5}, {'hold': 3, 'idle_hold': 2, 'connect_retry': 1},
           # every peer message of the history arrives in 3 TCP segments / octet by octet
           {'hold': 180, 'idle_hold': 30, 'connect_retry': 60, 'seg': 3}, {'hold': 9, 'idle_hold': 5, 'connect_retry': 60, 'seg': 'bytes'}]
PEER_HOLD = 90
_fresh = {}


def fresh_open(cfg):
    """OPEN bytes of the first session of a fresh boot with this configuration"""
    k = repr(sorted(cfg.items()))
    if k not in _fresh:
        sim = Sim(hold_time=cfg['hold'], idle_hold_time=cfg['idle_hold'], connect_retry_time=cfg['connect_retry'])
        c = ss.connect(sim)
        _fresh[k] = b''.join(b for _, b in c.transport.written)
    return _fresh[k]


ERRORISH = ('refused', 'timeout', 'close', 'bad_marker', 'bad_len', 'bad_type', 'notif')


def pick(enabled, choice):
    weighted = []
    for ev in enabled:
        w = 2
        if ev[0] == 'stop':
            w = 1      # an operator stop is part of the history as long as the operator starts the peer again
        if ev[0] == 'open' and ev[1] in ('h0', 'h1', 'h2', 'h3', 'badver', 'badas', 'badas4'):
            w = 4
        elif ev[0] in ('ok', 'tick'):
            w = 5
        elif ev[0] in ('ka', 'upd', 'rr', 'start'):
            w = 1
        weighted += [ev] * w
    return weighted[choice % len(weighted)]


def nontrivial(events):
    for ev in events:
        if ev[0] in ERRORISH or (ev[0] == 'open' and ev[1] in ('badver', 'badas', 'badas4', 'h1', 'h2')):
            return True
    return False


def operator_start(d):
    """the property speaks about a peer the operator has not stopped: if the last operator command of the history was a
    stop, the operator starts the peer again before the cooperative phase (our own record, not the agent's flag)"""
    last = None
    for ev in d.history:
        if ev[0] in ('stop', 'start'):
            last = ev[0]
    if last == 'stop':
        d.sim.manual_start()
        d.sim.reactor.settle(fire_due=True)
        d.history.append(['start'])


def handover(d, cfg, bgp_id=ss.PEER_ID, open_delay=0):
    """-> list of (sig, detail)"""
    sim = d.sim
    out = []
    t0 = sim.now
    H = min(cfg['hold'], PEER_HOLD)
    if sim.state == 'ESTABLISHED':
        # an Established session is inherited as it is: its hold time is the one negotiated by the history
        # (the first acceptable OPEN after the last successful connect; later OPENs are ignored by the agent)
        last_ok = max(i for i, ev in enumerate(d.history) if ev[0] == 'ok')
        for ev in d.history[last_ok:]:
            if ev[0] == 'open' and ev[1] in ('valid', 'h0', 'h3'):
                H = min(cfg['hold'], ev[2])
                break
    pending = {'live': len(ss.live_connectors(sim)), 'attempts': len(sim.reactor.attempts()),
               'timers': [c.name for c in sim.reactor.pending()]}
    before_state = sim.state
    if not pending['live'] and not pending['attempts'] and not pending['timers']:
        out.append(('nothing-pending:%s' % before_state, 'at hand-over (t=%s, state %s) no connection, attempt or timer is pending'
                    % (t0, before_state)))
    # (a slow but correct peer answers the agent's OPEN open_delay seconds later - well inside the 4-minute wait RFC 4271
    # prescribes for OpenSent; the bound grows by that latency)
    bound = cfg['idle_hold'] + max(cfg['connect_retry'], 30) + 1 + open_delay
    est = ss.cooperate(sim, t0 + bound, peer_hold=PEER_HOLD, bgp_id=bgp_id, open_delay=open_delay)
    if est is None:
        out.append(('not-reestablished:from-%s:ends-%s' % (before_state, sim.state),
                    'not ESTABLISHED within %ss of the hand-over (state %s -> %s; pending at hand-over %r; now %r)'
                    % (bound, before_state, sim.state, pending, [c.name for c in sim.reactor.pending()])))
        return out
    cur = sim.current()
    written = b''.join(b for _, b in cur.transport.written) if cur is not None else b''
    try:
        frames = rc.split_frames(written)
    except rc.WalkError:
        frames = []
    opens = [b for t, b in frames if t == rc.OPEN]
    ref = rc.split_frames(fresh_open(cfg))[0][1]
    if not opens or opens[0] != ref:
        out.append(('open-differs:' + open_diff(ref, opens[0] if opens else None, d),
                    'OPEN of the final session %s differs from a fresh boot %s'
                    % (opens[0].hex() if opens else None, ref.hex())))
    if not ss.stay_up(sim, H):
        out.append(('does-not-stay-up:H=%s' % ('0' if H == 0 else 'pos'),
                    'session left ESTABLISHED (now %s) although the peer sent KEEPALIVE every H/3 (H=%s)' % (sim.state, H)))
    return out


def open_diff(ref, got, d=None):
    if got is None:
        return 'no-open'
    a, b = rc.decode_open(ref), rc.decode_open(got)
    fields = [k for k in ('version', 'my_as', 'hold', 'bgp_id') if a[k] != b[k]]
    if fields:
        return 'fields=' + '+'.join(fields)
    ca = sorted(c[0] for c in a['caps'] if not isinstance(c[0], str))
    cb = sorted(c[0] for c in b['caps'] if not isinstance(c[0], str))
    missing = sorted(set(ca) - set(cb))
    extra = sorted(set(cb) - set(ca))
    if missing and not extra:
        return 'capabilities-missing'
    if extra:
        return 'capabilities-extra'
    return 'capability-values'


def run_case(case):
    cfg = case['cfg']
    fresh_open(cfg)          # must be computed before this case's simulator exists
    d = Driver(cfg, model=False)
    d.apply(['boot'])
    for ch in case['choices']:
        d.apply(pick(d.enabled(), ch))
    res = [f for f in d.failures if f[0].startswith(('escaped', 'livelock'))]
    operator_start(d)
    res += handover(d, cfg, case.get('peer_id', ss.PEER_ID), case.get('open_delay', 0))
    return d, res


def run_explicit(case):
    cfg = case['cfg']
    fresh_open(cfg)
    d = Driver(cfg, model=False)
    for ev in case['events']:
        if list(ev) not in d.enabled():
            return d, []
        d.apply(list(ev))
    res = [f for f in d.failures if f[0].startswith(('escaped', 'livelock'))]
    operator_start(d)
    res += handover(d, cfg, case.get('peer_id', ss.PEER_ID), case.get('open_delay', 0))
    return d, res


def outage_histories():
    """scripted histories the random prefixes rarely reach: the session (or its handshake) ends in one of several ways and the
    peer is then unreachable - every attempt refused or unanswered - for a span that lets every timer armed before (the
    4-minute wait for the peer's OPEN included) run out; -> (cfg, head, failure kind, span)"""
    heads = [[['ok'], ['close']], [['ok'], ['open', 'valid', 90], ['close']], [['ok'], ['open', 'valid', 90], ['ka'], ['close']],
             [['ok'], ['open', 'valid', 90], ['ka'], ['bad_marker']], [['ok'], ['open', 'h0', 0], ['ka'], ['notif', 'other']],
             [['ok'], ['open', 'badas', 90]], [['refused'], ['tick'], ['ok'], ['close']], [['ok'], ['notif', 'ver']]]
    for cfg in (CONFIGS[0], CONFIGS[1], CONFIGS[3]):
        for head in heads:
            for fail in ('refused', 'timeout'):
                for span in (100, 238, 242, 500):
                    yield cfg, head, fail, span


def outage_events(cfg, head, fail, span):
    """-> the explicit event list of one outage history (computed by driving a scratch agent)"""
    fresh_open(cfg)
    d = Driver(cfg, model=False)
    d.apply(['boot'])
    for ev in head:
        if list(ev) not in d.enabled():
            return None
        d.apply(list(ev))
    end = d.sim.now + span
    guard = 0
    while d.sim.now < end and guard < 600:
        guard += 1
        en = d.enabled()
        ev = [fail] if [fail] in en else (['tick'] if ['tick'] in en else None)
        if ev is None:
            break
        d.apply(ev)
    return list(d.history)


def run_multi(case, explicit=False):
    """the same property in the multi-connection regime of C12: connect-retry below the TCP timeout, and the
    connectionLost after the agent's own close delivered as an event of its own (possibly after the next attempt started)"""
    from vlib.props.c12 import MDriver, pick as pick12
    cfg = case['cfg']
    fresh_open(cfg)
    d = MDriver({'connect_retry': cfg['connect_retry'], 'hold': cfg['hold'], 'idle_hold': cfg['idle_hold']})
    if explicit:
        for ev in case['events']:
            if list(ev) not in d.enabled():
                return d, []
            d.apply(list(ev))
    else:
        d.apply(['boot'])
        for ch in case['choices']:
            d.apply(pick12(d.enabled(), ch))
    res = [f for f in d.failures if f[0].startswith(('escaped', 'livelock'))]
    operator_start(d)
    sim, r = d.sim, d.sim.reactor
    # late completions do arrive in the end
    while r.pending_io():
        r.deliver_io(0)
        r.settle(fire_due=True)
    t0 = sim.now
    pending = {'live': len(ss.live_connectors(sim)), 'attempts': len(r.attempts()), 'timers': [c.name for c in r.pending()]}
    before_state = sim.state
    if not pending['live'] and not pending['attempts'] and not pending['timers']:
        res.append(('nothing-pending:%s' % before_state, 'at hand-over (t=%s, state %s) no connection, attempt or timer is pending' % (t0, before_state)))
    bound = cfg['idle_hold'] + max(cfg['connect_retry'], 30) + 240 + 1
    H = sim.fsm.hold_time if sim.state == 'ESTABLISHED' else min(cfg['hold'], PEER_HOLD)
    est = ss.cooperate(sim, t0 + bound, peer_hold=PEER_HOLD)
    if est is None:
        res.append(('not-reestablished:from-%s:ends-%s' % (before_state, sim.state),
                    'multi-connection regime: not ESTABLISHED within %ss of the hand-over (pending then %r, now %r)'
                    % (bound, pending, [c.name for c in r.pending()])))
    elif not ss.stay_up(sim, H):
        res.append(('does-not-stay-up:H=%s' % ('0' if H == 0 else 'pos'), 'multi-connection regime: session left ESTABLISHED (now %s), H=%s'
                    % (sim.state, H)))
    return d, res


def shards(tier):
    n = 1500 if tier == 'quick' else 30000
    out = [{'name': 'prefixes-%d' % i, 'kind': 'hyp', 'examples': n, 'hypothesis': True,
            'steps': 14 if tier == 'quick' else 30} for i in range(8 if tier == 'quick' else 16)]
    out.append({'name': 'outages', 'kind': 'outages'})
    out += [{'name': 'multi-%d' % i, 'kind': 'multi', 'examples': 600 if tier == 'quick' else 12000, 'hypothesis': True,
             'steps': 20 if tier == 'quick' else 40} for i in range(4 if tier == 'quick' else 8)]
    return out


MULTI_CONFIGS = [{'hold': 180, 'idle_hold': 30, 'connect_retry': 60}, {'hold': 180, 'idle_hold': 10, 'connect_retry': 5},
                 {'hold': 9, 'idle_hold': 5, 'connect_retry': 29}, {'hold': 180, 'idle_hold': 0, 'connect_retry': 30},
                 {'hold': 90, 'idle_hold': 5, 'connect_retry': 31}]


def run_shard(spec, seed, col, tier):
    if spec['kind'] == 'outages':
        for cfg, head, fail, span in outage_histories():
            events = outage_events(cfg, head, fail, span)
            if events is None:
                continue
            case = {'cfg': cfg, 'events': events}
            d, res = run_explicit(case)
            col.case(case, True, labels=['outage:%s:%d' % (fail, span)])
            for sig, detail in res:
                col.fail(sig, case, detail)
        return
    if spec['kind'] == 'multi':
        def mbody(case):
            d, res = run_multi(case)
            explicit = {'multi': True, 'cfg': case['cfg'], 'events': d.history}
            col.case(explicit, True, labels=['multi-connection', 'cfg:%(hold)s/%(idle_hold)s/%(connect_retry)s' % case['cfg']])
            for sig, detail in res:
                col.fail(sig, explicit, detail)
        mstrat = st.fixed_dictionaries({'cfg': st.sampled_from(MULTI_CONFIGS),
                                        'choices': st.lists(st.integers(0, 999), min_size=0, max_size=spec['steps'])})
        hyp_run(col, mstrat, mbody, seed, spec['examples'])
        return

    def body(case):
        d, res = run_case(case)
        explicit = {'cfg': case['cfg'], 'events': d.history, 'peer_id': case.get('peer_id', ss.PEER_ID), 'open_delay': case.get('open_delay', 0)}
        col.case(explicit, nontrivial(d.history), labels=['cfg:%(hold)s/%(idle_hold)s/%(connect_retry)s' % case['cfg']])
        for sig, detail in res:
            col.fail(sig, explicit, detail)
    strat = st.fixed_dictionaries({'cfg': st.sampled_from(CONFIGS),
                                   # the well-behaved peer may come back with another BGP identifier than the history used
                                   'peer_id': st.sampled_from([ss.PEER_ID, ss.PEER_ID, '10.0.0.77', '192.0.2.1']),
                                   'open_delay': st.sampled_from([0, 0, 0, 2, 29, 31, 45, 100, 200]),
                                   'choices': st.lists(st.integers(0, 999), min_size=0, max_size=spec['steps'])})
    hyp_run(col, strat, body, seed, spec['examples'])


def replay(case):
    if case.get('multi'):
        return run_multi(case, explicit=True)[1]
    return run_explicit(case)[1]
