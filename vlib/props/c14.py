"""C14 - OPEN, NOTIFICATION, KEEPALIVE and ROUTE-REFRESH encode and decode faithfully.

Facets: open-self (yabgp construct -> yabgp parse, and -> refcodec decode), open-ref (refcodec
encode with every capability packaging -> yabgp parse), notif (all 65536 code/subcode pairs),
rr (route refresh, both type codes), keepalive.
"""
import ipaddress
import itertools

from hypothesis import strategies as st

from vlib import env
env.install()

from vlib import refcodec as rc  # noqa: E402
from vlib import strategies as vs  # noqa: E402
from vlib.runner import hyp_run  # noqa: E402
from vlib.util import diff_path, exc_sig  # noqa: E402

from yabgp.message.open import Open  # noqa: E402
from yabgp.message.notification import Notification  # noqa: E402
from yabgp.message.keepalive import KeepAlive  # noqa: E402
from yabgp.message.route_refresh import RouteRefresh  # noqa: E402

PROPERTY = 'C14'
RULE = ('open-self: Open.construct over AS/hold/identifier boundaries x every subset of the capability switches, '
        'decoded by Open.parse and by refcodec; open-ref: refcodec-encoded OPENs over capability subsets, orders and '
        'packagings (none / one per parameter / pairs / all in one) decoded by Open.parse; notif: all 256x256 '
        'code/subcode pairs x 5 data values, plus every Data length 0..4075 (messages of 21..4096 octets); rr: AFI/SAFI/reserved boundaries x both type codes. Non-trivial = OPEN '
        'with >= 2 capabilities, none at all, or AS > 65535 (other facets: every case); distinct by canonical JSON.')
ASSUMPTIONS = [
    'capability values are compared through the representation Open.parse documents by example in its unit tests '
    "(e.g. add-path -> [{'afi_safi': 'ipv4', 'send/receive': 'both'}])",
    'capabilities the constructor never emits (graceful restart, multisession) are not expected back',
    'each capability code other than multiprotocol/add-path appears at most once per OPEN (repetition is C15)',
]
EXHAUSTIVE = {'quick': False, 'thorough': False}

ADDPATH_FAMILIES = {(1, 1): 'ipv4', (1, 2): 'ipv4_mcast', (2, 1): 'ipv6', (1, 4): 'ipv4_lu', (2, 4): 'ipv6_lu',
                    (1, 133): 'flowspec', (1, 128): 'vpnv4', (2, 128): 'vpnv6', (25, 70): 'evpn',
                    (16388, 71): 'bgpls', (1, 73): 'ipv4_srte', (2, 133): 'ipv6_flowspec'}
SR = {1: 'receive', 2: 'send', 3: 'both'}


# ------------------------------------------------------------------------------------------ open-self
def run_open_self(case):
    asn, hold, bid, caps = case['asn'], case['hold'], case['id'], case['caps']
    my_caps = dict(caps)
    if 'afi_safi' in my_caps:
        my_caps['afi_safi'] = [tuple(x) for x in my_caps['afi_safi']]
    try:
        raw = Open(version=4, asn=asn, hold_time=hold, bgp_id=bid).construct(my_caps)
    except Exception as e:  # construction must work for in-range values
        return [('open-self:construct-exception:' + exc_sig(e), repr(e))]
    out = []
    # expected capability set in parse-side representation
    exp_caps = {}
    if 'afi_safi' in caps:
        exp_caps['afi_safi'] = [list(x) for x in caps['afi_safi']]
    if caps.get('cisco_route_refresh'):
        exp_caps['cisco_route_refresh'] = True
    if caps.get('route_refresh'):
        exp_caps['route_refresh'] = True
    if asn > 65535 or caps.get('four_bytes_as'):
        exp_caps['four_bytes_as'] = True
    if 'ext_nexthop' in caps:
        exp_caps['ext_nexthop'] = [{'afi_safi': list(e['afi_safi']), 'nexthop_afi': e['nexthop_afi']}
                                   for e in caps['ext_nexthop']]
    if caps.get('add_path'):
        exp_caps['add_path'] = [{'afi_safi': 'ipv4', 'send/receive': caps['add_path'].split('_')[1]}]
    if caps.get('enhanced_route_refresh'):
        exp_caps['enhanced_route_refresh'] = True
    if not exp_caps.get('afi_safi', True):
        del exp_caps['afi_safi']     # empty family list emits nothing
    exp = {'version': 4, 'asn': asn, 'hold_time': hold, 'bgp_id': str(ipaddress.IPv4Address(bid)),
           'capabilities': exp_caps}
    # (1) independent decode of the bytes
    try:
        frames = rc.split_frames(raw)
        assert len(frames) == 1 and frames[0][0] == rc.OPEN
        d = rc.decode_open(frames[0][1])
        if d['version'] != 4 or d['hold'] != hold or d['bgp_id'] != exp['bgp_id']:
            out.append(('open-self:wire:fixed-fields', 'refcodec reads %r' % (d,)))
        if d['my_as'] != (asn if asn <= 65535 else 23456):
            out.append(('open-self:wire:my-as', 'My-AS field %d for AS %d' % (d['my_as'], asn)))
        if d['asn'] != asn:
            out.append(('open-self:wire:true-as', 'true AS on the wire %d, given %d' % (d['asn'], asn)))
    except (rc.WalkError, AssertionError) as e:
        out.append(('open-self:wire:malformed', str(e)))
        return out
    # (2) yabgp's own decode
    try:
        got = Open().parse(frames[0][1])
    except Exception as e:
        out.append(('open-self:parse-exception:' + exc_sig(e), repr(e)))
        return out
    if got is None:
        out.append(('open-self:parse-returns-none', 'Open.parse returned None (no optional parameters)'
                    if not d['caps'] else 'Open.parse returned None'))
        return out
    dp = diff_path(exp, got)
    if dp:
        out.append(('open-self:mismatch:' + dp, 'expected %r got %r' % (exp, got)))
    return out


CAP_SWITCHES = ['route_refresh', 'cisco_route_refresh', 'enhanced_route_refresh', 'four_bytes_as',
                'graceful_restart', 'cisco_multi_session']


@st.composite
def open_self_case(draw):
    caps = {}
    for k in CAP_SWITCHES:
        v = draw(st.sampled_from([None, True, False]))
        if v is not None:
            caps[k] = v
    ap = draw(st.sampled_from([None, None, 'ipv4_send', 'ipv4_receive', 'ipv4_both', 'absent']))
    if ap != 'absent':
        caps['add_path'] = ap
    fam = draw(st.sampled_from(['absent', 'some', 'some', 'empty']))
    if fam == 'some':
        caps['afi_safi'] = draw(st.lists(st.sampled_from(sorted(ADDPATH_FAMILIES)), min_size=1, max_size=5,
                                         unique=True).map(lambda l: [list(x) for x in l]))
    elif fam == 'empty':
        caps['afi_safi'] = []
    if draw(st.integers(0, 3)) == 0:
        caps['ext_nexthop'] = draw(st.lists(
            st.fixed_dictionaries({'afi_safi': st.sampled_from([[1, 1], [1, 2], [1, 128], [1, 4]]),
                                   'nexthop_afi': st.sampled_from([1, 2])}), min_size=0, max_size=3))
    return {'f': 'open-self', 'asn': draw(vs.asn4), 'hold': draw(vs.hold_time),
            'id': draw(st.one_of(st.sampled_from([1, 0x0A000001, 2 ** 32 - 1]), st.integers(1, 2 ** 32 - 1))),
            'caps': caps}


# ------------------------------------------------------------------------------------------ open-ref
def encode_cap(c):
    k = c[0]
    if k == 'mp':
        return rc.cap_mp(c[1], c[2])
    if k == 'rr':
        return rc.cap(2)
    if k == 'rr128':
        return rc.cap(128)
    if k == 'err':
        return rc.cap(70)
    if k == 'gr':
        return rc.cap_gr(c[1], [tuple(x) for x in c[2]])
    if k == 'addpath':
        return rc.cap_addpath([tuple(x) for x in c[1]])
    if k == 'extnh':
        return rc.cap_extnh([tuple(x) for x in c[1]])
    if k == 'llgr':
        return rc.cap_llgr([tuple(x) for x in c[1]])
    if k == 'ms':
        return rc.cap(131, bytes(c[1]))
    if k == 'unk':
        return rc.cap(c[1], bytes.fromhex(c[2]))
    raise ValueError(c)


def expected_caps(caps, as4):
    d = {}
    for c in caps:
        k = c[0]
        if k == 'mp':
            d.setdefault('afi_safi', []).append([c[1], c[2]])
        elif k == 'rr':
            d['route_refresh'] = True
        elif k == 'rr128':
            d['cisco_route_refresh'] = True
        elif k == 'err':
            d['enhanced_route_refresh'] = True
        elif k == 'gr':
            d['graceful_restart'] = True
        elif k == 'addpath':
            for a, s, sr in c[1]:
                d.setdefault('add_path', []).append({'afi_safi': ADDPATH_FAMILIES[(a, s)], 'send/receive': SR[sr]})
        elif k == 'extnh':
            d['ext_nexthop'] = [{'afi_safi': [a, s], 'nexthop_afi': n} for a, s, n in c[1]]
        elif k == 'llgr':
            d['LLGR'] = [{'afi_safi': [a, s], 'time': t} for a, s, f, t in c[1]]
        elif k == 'ms':
            d['cisco_multi_session'] = True
        elif k == 'unk':
            d[str(c[1])] = repr(bytes.fromhex(c[2]))
    if as4:
        d['four_bytes_as'] = True
    return d


def run_open_ref(case):
    asn, hold, bid, caps, pack, as4 = case['asn'], case['hold'], case['id'], case['caps'], case['pack'], case['as4']
    want4 = (asn > 65535) if as4 is None else as4
    enc = [encode_cap(c) for c in caps]
    pos = case.get('as4_pos', len(enc))
    if want4:
        enc.insert(min(pos, len(enc)), rc.cap_as4(asn))
    field = asn if asn <= 65535 else 23456
    if not enc:
        params = b''
    elif pack == 'all':
        params = rc.opt_param(2, b''.join(enc))
    elif pack == 'pairs':
        params = b''.join(rc.opt_param(2, b''.join(enc[i:i + 2])) for i in range(0, len(enc), 2))
    else:
        params = b''.join(rc.opt_param(2, c) for c in enc)
    pad_to = case.get('pad_to')
    if pad_to and len(params) + 4 <= pad_to <= 255 and not any(c[0] == 'unk' and c[1] == 253 for c in caps):
        # one more (unknown) capability in a parameter of its own, sized so that the Optional Parameters Length is exactly
        # pad_to - the field's maximum is 255
        filler = bytes(range(1, pad_to - len(params) - 4 + 1))
        params += rc.opt_param(2, rc.cap(253, filler))
        caps = list(caps) + [['unk', 253, filler.hex()]]
    if len(params) > 255:
        return None     # does not fit an OPEN: not a well-formed input
    body = rc.open_body(4, field, hold, bid, params)
    exp = {'version': 4, 'asn': asn if (want4 or asn <= 65535) else 23456, 'hold_time': hold,
           'bgp_id': str(ipaddress.IPv4Address(bid)), 'capabilities': expected_caps(caps, want4)}
    try:
        got = Open().parse(body)
    except Exception as e:
        return [('open-ref:parse-exception:%s:%s' % (exc_sig(e), _culprit(caps, len(params))), repr(e))]
    if got is None:
        return [('open-ref:parse-returns-none:%s' % ('no-params' if not params else 'params'),
                 'Open.parse returned None for %s' % body.hex())]
    dp = diff_path(exp, got)
    if dp:
        return [('open-ref:mismatch:' + dp, 'expected %r got %r' % (exp, got))]
    return []


def _capkinds(caps):
    return '+'.join(sorted(set(c[0] for c in caps)))


def _culprit(caps, optlen):
    """root-cause feature of a decoding failure: the one capability kind that fails on its own, else the length class"""
    for c in caps:
        try:
            body = rc.open_body(4, 65001, 180, 1, rc.opt_param(2, encode_cap(c)))
            Open().parse(body)
        except Exception:      # noqa
            return 'kind=' + c[0]
    if optlen >= 250:
        return 'optlen=%d' % optlen
    return 'combination-of-%d' % min(len(caps), 3)


afi_safi_known = st.sampled_from(sorted(ADDPATH_FAMILIES)).map(list)
any_afi_safi = st.one_of(afi_safi_known, st.tuples(vs.u16, vs.u8).map(list))

cap_kind = {
    'mp': any_afi_safi.map(lambda x: ['mp', x[0], x[1]]),
    'rr': st.just(['rr']),
    'rr128': st.just(['rr128']),
    'err': st.just(['err']),
    'gr': st.tuples(vs.u16, st.lists(st.tuples(vs.u16, vs.u8, st.sampled_from([0, 0x80])).map(list), max_size=3)
                    ).map(lambda t: ['gr', t[0], t[1]]),
    'addpath': st.lists(st.tuples(afi_safi_known, st.integers(1, 3)).map(lambda t: [t[0][0], t[0][1], t[1]]),
                        min_size=1, max_size=4).map(lambda l: ['addpath', l]),
    'extnh': st.lists(st.tuples(st.sampled_from([1, 2]), st.sampled_from([1, 2, 4, 128]), st.sampled_from([1, 2])).map(list),
                      min_size=1, max_size=3).map(lambda l: ['extnh', l]),
    'llgr': st.lists(st.tuples(st.sampled_from([1, 2, 25]), st.sampled_from([1, 4, 70, 128]), st.sampled_from([0, 0x80]),
                               st.one_of(st.sampled_from([0, 1, 2 ** 24 - 1]), st.integers(0, 2 ** 24 - 1))).map(list),
                     min_size=1, max_size=3).map(lambda l: ['llgr', l]),
    'ms': st.lists(vs.u8, max_size=3).map(lambda l: ['ms', l]),
}
UNK_CODES = [0, 3, 4, 6, 63, 66, 67, 68, 72, 73, 127, 129, 130, 132, 255]
unk_cap = st.tuples(st.sampled_from(UNK_CODES), st.binary(max_size=6)).map(lambda t: ['unk', t[0], t[1].hex()])


@st.composite
def open_ref_case(draw):
    kinds = draw(st.lists(st.sampled_from(sorted(cap_kind)), unique=True, max_size=9))
    caps = [draw(cap_kind[k]) for k in kinds]
    # multiprotocol and add-path may repeat; unknown codes (distinct) may be sprinkled in
    for _ in range(draw(st.integers(0, 3))):
        caps.append(draw(cap_kind['mp']))
    if draw(st.booleans()):
        caps.append(draw(cap_kind['addpath']))
    codes = draw(st.lists(st.sampled_from(UNK_CODES), unique=True, max_size=2))
    for code in codes:
        caps.append(['unk', code, draw(st.binary(max_size=6)).hex()])
    caps = draw(st.permutations(caps))
    # unique mp tuples (a repeated identical capability is legal but pointless)
    seen, out = set(), []
    for c in caps:
        key = tuple(c[:3]) if c[0] == 'mp' else None
        if key and key in seen:
            continue
        seen.add(key)
        out.append(c)
    asn = draw(vs.asn4)
    as4 = draw(st.sampled_from([None, True, False])) if asn <= 65535 else True
    return {'f': 'open-ref', 'asn': asn, 'hold': draw(vs.hold_time),
            'id': draw(st.integers(1, 2 ** 32 - 1)), 'caps': out, 'as4': as4,
            'as4_pos': draw(st.integers(0, 12)),
            'pad_to': draw(st.sampled_from([None, None, None, 128, 253, 254, 255])),
            'pack': draw(st.sampled_from(['one', 'all', 'pairs']))}


# ------------------------------------------------------------------------------------------ others
def run_notif(code, sub, data):
    out = []
    try:
        raw = Notification().construct(code, sub, data)
    except Exception as e:
        return [('notif:construct-exception:' + exc_sig(e), repr(e))]
    ref = rc.notification(code, sub, data)
    if raw != ref:
        out.append(('notif:wire', ('constructed %s, RFC encoding %s' % (raw.hex(), ref.hex()))[:400]))
    try:
        got = Notification.parse(ref[19:])
    except Exception as e:
        return out + [('notif:parse-exception:' + exc_sig(e), repr(e))]
    if tuple(got) != (code, sub, data):
        out.append(('notif:mismatch', ('expected %r got %r' % ((code, sub, data), got))[:400]))
    return out


def _shaped_datas():
    txt = b'going down for maintenance'
    utf = 'Wartung \u00fc\u4e2d'.encode('utf-8')
    return [b'\x00', bytes([len(txt)]) + txt, bytes([len(txt) - 1]) + txt, bytes([len(txt) + 1]) + txt,
            bytes([len(utf)]) + utf, b'\x01x', b'\x02ab', b'\x00\x00', b'\x01\x00', bytes([127]) + b'a' * 127,
            bytes([128]) + b'a' * 128, bytes([255]) + b'a' * 255, b'\xff' * 16 + b'\x00\x13\x04',
            b'\x02\x06\x01\x04\x00\x01\x00\x01', b'\x00\x1a' + txt, txt + bytes([len(txt)])]


def _filled(n, fill):
    return b'\xff' * n if fill == 'ff' else bytes(i % 251 for i in range(n))


def run_rr(afi, res, safi, mtype):
    out = []
    try:
        raw = RouteRefresh(afi, safi, res).construct(mtype)
    except Exception as e:
        return [('rr:construct-exception:' + exc_sig(e), repr(e))]
    ref = rc.route_refresh(afi, safi, res, mtype)
    if raw != ref:
        out.append(('rr:wire', 'constructed %s, RFC encoding %s' % (raw.hex(), ref.hex())))
    try:
        got = RouteRefresh().parse(ref[19:])
    except Exception as e:
        return out + [('rr:parse-exception:' + exc_sig(e), repr(e))]
    if tuple(got) != (afi, res, safi):
        out.append(('rr:mismatch', 'expected %r got %r' % ((afi, res, safi), got)))
    return out


def run_keepalive():
    out = []
    raw = KeepAlive().construct()
    if raw != rc.keepalive():
        out.append(('keepalive:wire', raw.hex()))
    try:
        KeepAlive.parse(raw[19:])
    except Exception as e:
        out.append(('keepalive:parse-exception:' + exc_sig(e), repr(e)))
    return out


# ------------------------------------------------------------------------------------------ shards
def shards(tier):
    out = []
    n_self = 1500 if tier == 'quick' else 30000
    n_ref = 2500 if tier == 'quick' else 50000
    for i in range(4):
        out.append({'name': 'open-self-%d' % i, 'kind': 'open-self', 'examples': n_self, 'hypothesis': True})
    for i in range(6):
        out.append({'name': 'open-ref-%d' % i, 'kind': 'open-ref', 'examples': n_ref, 'hypothesis': True})
    out.append({'name': 'open-self-subsets', 'kind': 'open-self-subsets'})
    for i in range(4):
        out.append({'name': 'notif-%d' % i, 'kind': 'notif', 'codes': list(range(i, 256, 4))})
    for i in range(2):
        out.append({'name': 'notif-len-%d' % i, 'kind': 'notif-len', 'part': i})
    out.append({'name': 'notif-shaped', 'kind': 'notif-shaped'})
    out.append({'name': 'notif-data', 'kind': 'notif-data', 'examples': 3000 if tier == 'quick' else 60000, 'hypothesis': True})
    out.append({'name': 'rr', 'kind': 'rr', 'examples': 2000 if tier == 'quick' else 40000, 'hypothesis': True})
    return out


def nontrivial_open(case):
    if case['f'] == 'open-self':
        n = sum(1 for k in ('route_refresh', 'cisco_route_refresh', 'enhanced_route_refresh') if case['caps'].get(k))
        n += len(case['caps'].get('afi_safi') or [])
        n += 1 if (case['asn'] > 65535 or case['caps'].get('four_bytes_as')) else 0
        n += 1 if case['caps'].get('add_path') else 0
        n += 1 if 'ext_nexthop' in case['caps'] else 0
        return n >= 2 or n == 0 or case['asn'] > 65535
    n = len(case['caps']) + (1 if (case['as4'] or case['asn'] > 65535) else 0)
    return n >= 2 or n == 0 or case['asn'] > 65535


def run_shard(spec, seed, col, tier):
    kind = spec['kind']
    if kind == 'open-self':
        def body(case):
            res = run_open_self(case)
            col.case(case, nontrivial_open(case), labels=['open-self'])
            for sig, detail in res:
                col.fail(sig, case, detail)
        hyp_run(col, open_self_case(), body, seed, spec['examples'])
    elif kind == 'open-ref':
        def body(case):
            res = run_open_ref(case)
            if res is None:
                col.label('open-ref:too-long-skipped')
                return
            col.case(case, nontrivial_open(case), labels=['open-ref', 'pack:' + case['pack'],
                                                          'ncaps:%d' % min(len(case['caps']), 10)])
            for sig, detail in res:
                col.fail(sig, case, detail)
        hyp_run(col, open_ref_case(), body, seed, spec['examples'])
    elif kind == 'open-self-subsets':
        # every subset of the boolean switches x add-path x family list presence, for 3 AS numbers
        sw = ['route_refresh', 'cisco_route_refresh', 'enhanced_route_refresh', 'four_bytes_as']
        n = 0
        for bits in itertools.product([False, True], repeat=len(sw)):
            for ap in (None, 'ipv4_send', 'ipv4_receive', 'ipv4_both'):
                for fam in (None, [[1, 1]], [[1, 1], [2, 1], [1, 128]]):
                    for asn in (65001, 65536, 2 ** 32 - 1):
                        caps = dict(zip(sw, bits))
                        caps['add_path'] = ap
                        if fam is not None:
                            caps['afi_safi'] = fam
                        case = {'f': 'open-self', 'asn': asn, 'hold': 180, 'id': 0x0A000001, 'caps': caps}
                        res = run_open_self(case)
                        n += 1
                        col.case(case, nontrivial_open(case), labels=['open-self-subsets'])
                        for sig, detail in res:
                            col.fail(sig, case, detail)
        for sig, detail in run_keepalive():
            col.fail(sig, {'f': 'keepalive'}, detail)
        col.bulk(1, 0, label='keepalive')
    elif kind == 'notif':
        datas = [b'', b'\x00', b'\xff' * 2, bytes(range(7)), b'\xab' * 64]
        n = 0
        for code in spec['codes']:
            for sub in range(256):
                data = datas[(code + sub) % len(datas)]
                for sig, detail in run_notif(code, sub, data):
                    col.fail(sig, {'f': 'notif', 'code': code, 'sub': sub, 'data': data.hex()}, detail)
                n += 1
        col.bulk(n, n, label='notif', sample={'f': 'notif', 'code': spec['codes'][0], 'sub': 255, 'data': datas[0].hex()})
    elif kind == 'notif-len':
        # every Data length a NOTIFICATION can carry (0..4075, i.e. messages of 21..4096 octets)
        n = 0
        for ln in range(spec['part'], 4076, 2):
            for code, sub, fill in ((6, 2, 'count'), (2, 7, 'ff')):
                case = {'f': 'notif', 'code': code, 'sub': sub, 'datalen': ln, 'fill': fill}
                for sig, detail in run_notif(code, sub, _filled(ln, fill)):
                    col.fail(sig, case, detail[:300])
                n += 1
        col.bulk(n, n, label='notif-every-data-length', sample={'f': 'notif', 'code': 6, 'sub': 2, 'datalen': 4075,
                                                                'fill': 'count'})
    elif kind == 'notif-shaped':
        # every code 0..8 and subcode 0..16 (all that the RFCs assign, and their neighbours) with Data that has an inner
        # structure a decoder might be tempted to interpret: a length octet in front of text (RFC 8203 / 9003 shutdown
        # communication, exact and off by one), a BGP marker, a capability TLV, an embedded message header
        n = 0
        for code in range(9):
            for sub in range(17):
                for data in _shaped_datas():
                    for sig, detail in run_notif(code, sub, data):
                        col.fail(sig, {'f': 'notif', 'code': code, 'sub': sub, 'data': data.hex()}, detail)
                    n += 1
        col.bulk(n, n, label='notif-shaped-data', sample={'f': 'notif', 'code': 6, 'sub': 2, 'data': _shaped_datas()[1].hex()})
    elif kind == 'notif-data':
        def body(case):
            data = bytes.fromhex(case['data'])
            col.case(case, len(data) > 0, labels=['notif-data', 'len-prefixed' if len(data) > 1 and data[0] == len(data) - 1
                                                  else 'other-data'])
            for sig, detail in run_notif(case['code'], case['sub'], data):
                col.fail(sig, case, detail)
        text = st.text(max_size=60).map(lambda t: t.encode('utf-8')[:255])
        inner = st.one_of(st.binary(max_size=40), text, st.binary(min_size=100, max_size=300))
        data = st.one_of(
            inner,
            inner.map(lambda b: bytes([len(b) & 255]) + b),                       # exact length octet in front
            st.tuples(inner, st.sampled_from([-1, 1, 2])).map(lambda t: bytes([(len(t[0]) + t[1]) & 255]) + t[0]),
            inner.map(lambda b: len(b[:65535]).to_bytes(2, 'big') + b),           # 2-octet length in front
            inner.map(lambda b: b + bytes([len(b) & 255])))                       # length octet behind
        strat = st.fixed_dictionaries({'f': st.just('notif'),
                                       'code': st.one_of(st.integers(1, 7), st.integers(1, 7), vs.u8),
                                       'sub': st.one_of(st.integers(0, 11), st.integers(0, 11), vs.u8),
                                       'data': data.map(lambda b: b.hex())})
        hyp_run(col, strat, body, seed, spec['examples'])
    elif kind == 'rr':
        def body(case):
            res = run_rr(case['afi'], case['res'], case['safi'], case['type'])
            col.case(case, True, labels=['rr'])
            for sig, detail in res:
                col.fail(sig, case, detail)
        strat = st.fixed_dictionaries({'f': st.just('rr'), 'afi': vs.u16, 'res': st.sampled_from([0, 0, 1, 255]),
                                       'safi': st.one_of(st.sampled_from([0, 1, 4, 70, 71, 128, 133, 255]), vs.u8),
                                       'type': st.sampled_from([5, 128])})
        hyp_run(col, strat, body, seed, spec['examples'])
    else:
        raise ValueError(kind)


def replay(case):
    f = case.get('f')
    if f == 'open-self':
        return run_open_self(case)
    if f == 'open-ref':
        return run_open_ref(case) or []
    if f == 'notif':
        data = bytes.fromhex(case['data']) if 'data' in case else _filled(case['datalen'], case['fill'])
        return run_notif(case['code'], case['sub'], data)
    if f == 'rr':
        return run_rr(case['afi'], case['res'], case['safi'], case['type'])
    if f == 'keepalive':
        return run_keepalive()
    raise ValueError(f)
