"""C08 - everything the agent constructs is structurally valid BGP on the wire.

Generator: the value spaces of C06, C07 and C14 plus the construct-only families (SR-TE policy
NLRI, tunnel-encapsulation attribute in old/new TLV modes with all segment sub-TLV kinds, PMSI
tunnel with/without EVPN-overlay signalling, IPv6 flowspec, EVPN type 5), and the messages written
by BGP.send_* in a simulated session.  Oracle: the independent structural walker of vlib/refwalk.py
accepts the bytes and the skeleton predicted from the input equals the skeleton walked; an
exception from construct is a pass, None / non-bytes / malformed bytes are failures.
"""
from hypothesis import strategies as st

from vlib import env
env.install()

from vlib import refcodec as rc  # noqa: E402
from vlib import refwalk  # noqa: E402
from vlib import strategies as vs  # noqa: E402
from vlib.runner import hyp_run  # noqa: E402
from vlib.util import exc_sig  # noqa: E402
from vlib.props import c06, c07, c14  # noqa: E402

from yabgp.message.update import Update  # noqa: E402
from yabgp.message.open import Open  # noqa: E402
from yabgp.message.notification import Notification  # noqa: E402
from yabgp.message.keepalive import KeepAlive  # noqa: E402
from yabgp.message.route_refresh import RouteRefresh  # noqa: E402

PROPERTY = 'C08'
RULE = ('inputs of C06 (UPDATE, standard attributes), C07 (MP families) and C14 (OPEN/NOTIFICATION/ROUTE-REFRESH/KEEPALIVE) plus '
        'SR-TE policy NLRI (IPv4 endpoint), tunnel encapsulation (old/new, preference, binding SID, ENLP, priority, policy name, '
        'remote endpoint v4/v6, 1..3 segment lists with weight and segment kinds 1/3/5/6 with/without SID), PMSI tunnel, IPv6 '
        'flowspec (all 13 component types, prefix offsets), EVPN type 5. Non-trivial = message with a nested container (MP '
        'attribute, tunnel encapsulation, capability list) or >= 2 attributes; distinct by canonical JSON.')
ASSUMPTIONS = ['an exception raised by a construct function counts as "construction fails with an error"',
               'attribute categories per RFC 4271/4760/4360/8092/4456/6514/9012 as listed in refcodec.ATTR_CATEGORY; the partial '
               'bit is tolerated on optional transitive attributes']
EXHAUSTIVE = {'quick': False, 'thorough': False}


def ceil8(n):
    return (n + 7) // 8


def plen(p):
    return int(p.split('/')[1])


# ------------------------------------------------------------------------------------------ construct-only strategies
opt_sid = st.fixed_dictionaries({'label': vs.label}, optional={'TC': st.integers(0, 7), 'S': st.integers(0, 1), 'TTL': st.integers(0, 255)})
segment = st.one_of(
    opt_sid.map(lambda v: {'1': v}),
    st.fixed_dictionaries({'node': vs.ipv4_host}, optional={'SID': opt_sid}).map(lambda v: {'3': v}),
    st.fixed_dictionaries({'interface': vs.u32, 'node': vs.ipv4_host}, optional={'SID': opt_sid}).map(lambda v: {'5': v}),
    st.fixed_dictionaries({'local': vs.ipv4_host, 'remote': vs.ipv4_host}, optional={'SID': opt_sid}).map(lambda v: {'6': v}),
)
seg_list = st.fixed_dictionaries({'1': st.lists(segment, min_size=0, max_size=5)}, optional={'9': vs.u32})


@st.composite
def tunnel_value(draw):
    mode = draw(st.sampled_from(['old', 'new']))
    v = {'0': mode}
    if draw(st.booleans()):
        v['6' if (mode == 'old' and draw(st.booleans())) else '12'] = draw(vs.u32)
    if draw(st.booleans()):
        v['7' if draw(st.booleans()) else '13'] = draw(vs.label)
    if mode == 'new':
        if draw(st.booleans()):
            v['14'] = draw(st.integers(0, 255))
        if draw(st.booleans()):
            v['15'] = draw(st.integers(0, 255))
        if draw(st.booleans()):
            v['129'] = draw(st.one_of(st.just('policy-1'), st.text(alphabet='abcXYZ09-_', min_size=0, max_size=40),
                                      st.text(alphabet='ab', min_size=250, max_size=300),
                                      # text as it may arrive through the REST API: not ASCII (refused, or encoded consistently)
                                      st.sampled_from(['caf\u00e9', 'pol\u00edtica-1', '\u7b56\u7565', 'a\u00df', '\u20ac' * 5, 'x' * 20 + '\u00e9'])))
        if draw(st.booleans()):
            v6 = draw(st.booleans())
            v['6'] = {'asn': draw(vs.u32), 'afi': 'ipv6' if v6 else 'ipv4', 'address': draw(vs.ipv6_global if v6 else vs.ipv4_host)}
    v['128'] = draw(st.lists(seg_list, min_size=0, max_size=3))
    return v


srte_case = st.fixed_dictionaries({
    'nlri': st.fixed_dictionaries({'distinguisher': vs.u32, 'color': vs.u32, 'endpoint': vs.ipv4_host}),
    'nexthop': vs.ipv4_host, 'tunnel': tunnel_value(), 'withdraw': st.booleans()})

pmsi_case = st.fixed_dictionaries({
    'pmsi': st.fixed_dictionaries({'mpls_label': st.lists(vs.label, min_size=1, max_size=1), 'tunnel_id': st.one_of(vs.ipv4_host, vs.ipv6_global),
                                   'tunnel_type': st.sampled_from([6, 6, 6, 0, 1, 3]), 'leaf_info_required': st.integers(0, 1)}),
    'overlay': st.sampled_from([None, 8, 9, 10])})

FS6_OPS = c07.FS_OPS


@st.composite
def fs6_rule(draw):
    comps = draw(st.sets(st.integers(1, 13), min_size=1, max_size=6))
    rule = {}
    for c in sorted(comps):
        if c in (1, 2):
            ln = draw(st.integers(0, 128))
            off = draw(st.one_of(st.just(0), st.integers(0, ln)))
            rule[str(c)] = {'prefix': draw(vs.prefix6(st.just(ln))), 'offset': off}
        else:
            rule[str(c)] = draw(c07.fs_terms(c07.fs_value if c in (4, 5, 6, 10, 13) else c07.fs_small, big=draw(st.integers(0, 12)) == 0))
    return rule


fs6_case = st.fixed_dictionaries({'nexthop': st.one_of(st.just(''), vs.ipv6_global), 'rules': st.lists(fs6_rule(), min_size=1, max_size=3),
                                  'withdraw': st.booleans()})

evpn5_case = st.fixed_dictionaries({
    'rd': vs.rd_text(), 'esi': st.integers(0, 2 ** 53), 'eth_tag_id': vs.u32,
    'route': st.one_of(st.tuples(vs.prefix4(), vs.ipv4_host), st.tuples(vs.prefix6(), vs.ipv6_global)),
    'label': st.lists(vs.label, min_size=1, max_size=1)})


# ------------------------------------------------------------------------------------------ checks
def construct_update(msg, asn4, facet):
    """-> (status, bytes|None, failures)"""
    try:
        raw = Update.construct(msg, asn4)
    except Exception as e:  # construction fails with an error: allowed
        return 'rejected:' + type(e).__name__, None, []
    if raw is None:
        empty = not (msg.get('attr') or msg.get('nlri') or msg.get('withdraw'))
        if empty:
            return 'nothing-to-send', None, []
        return 'fail', None, [('%s:construct-returns-None' % facet, 'Update.construct returned None for %r' % (msg,))]
    if not isinstance(raw, (bytes, bytearray)):
        return 'fail', None, [('%s:construct-returns-%s' % (facet, type(raw).__name__), repr(raw)[:200])]
    return 'ok', bytes(raw), []


def walk(raw, asn4, facet):
    try:
        return refwalk.walk_message(raw, asn4), []
    except rc.WalkError as e:
        return None, [('%s:malformed:%s' % (facet, _generalise(str(e))), '%s in %s' % (e, raw.hex()[:300]))]


def _generalise(msg):
    import re
    return re.sub(r'\d+', 'N', msg)[:90]


def check_c06(case):
    msg = c06.to_msg(case)
    status, raw, out = construct_update(msg, case['asn4'], 'update')
    if raw is None:
        return status, out
    sk, out = walk(raw, case['asn4'], 'update')
    if sk is None:
        return 'fail', out
    exp_n = [(plen(p), ceil8(plen(p))) for p in case['nlri']] if case['attr'] else []
    exp_w = [(plen(p), ceil8(plen(p))) for p in case['withdraw']]
    if sk['nlri'] != exp_n:
        out.append(('update:skeleton:nlri', 'announced prefixes on the wire %r, predicted %r' % (sk['nlri'], exp_n)))
    if sk['withdraw'] != exp_w:
        out.append(('update:skeleton:withdraw', 'withdrawn prefixes on the wire %r, predicted %r' % (sk['withdraw'], exp_w)))
    if sorted(sk['attrs']) != sorted(int(k) for k in case['attr']):
        out.append(('update:skeleton:attributes', 'attributes on the wire %r, given %r' % (sorted(sk['attrs']), sorted(case['attr']))))
    else:
        if sk['order'] != case['order']:
            pass    # order is the caller's dict order; not a structural matter
        if '2' in case['attr'] and sk['attrs'][2]['segments'] != [len(s[1]) for s in case['attr']['2']]:
            out.append(('update:skeleton:as-path', 'segments %r, given %r' % (sk['attrs'][2]['segments'], [len(s[1]) for s in case['attr']['2']])))
        for code in (8, 10, 16, 32):
            if str(code) in case['attr'] and code in sk['attrs'] and sk['attrs'][code].get('count') != len(case['attr'][str(code)]):
                out.append(('update:skeleton:attr%d-count' % code, '%r vs %d given' % (sk['attrs'][code], len(case['attr'][str(code)]))))
    return ('fail' if out else 'ok'), out


@st.composite
def addpath_case(draw):
    """ADD-PATH encoding (Update.construct(..., addpath=True)): every entry is a path identifier followed by the prefix; an
    entry without a usable identifier is refused"""
    pid = st.one_of(st.sampled_from([0, 0, 1, 255, 256, 2 ** 31, 2 ** 32 - 1]), vs.u32)
    entry = st.one_of(st.fixed_dictionaries({'prefix': vs.prefix4(), 'path_id': pid}),
                      st.fixed_dictionaries({'prefix': vs.prefix4(), 'path_id': pid}),
                      st.fixed_dictionaries({'prefix': vs.prefix4()}),                          # identifier missing
                      st.fixed_dictionaries({'prefix': vs.prefix4(), 'path_id': st.none()}))
    where = draw(st.sampled_from(['nlri', 'withdraw', 'both']))
    case = {'nlri': [], 'withdraw': []}
    if where in ('nlri', 'both'):
        case['nlri'] = draw(st.lists(entry, min_size=1, max_size=4))
    if where in ('withdraw', 'both'):
        case['withdraw'] = draw(st.lists(entry, min_size=1, max_size=4))
    return case


def check_addpath(case):
    msg = {'attr': ({1: 0, 2: [(2, [65001])], 3: '10.0.0.1'} if case['nlri'] else {}), 'nlri': list(case['nlri']),
           'withdraw': list(case['withdraw'])}
    try:
        raw = Update.construct(msg, True, True)
    except Exception as e:      # refused: fine
        return 'rejected:' + type(e).__name__, []
    if not isinstance(raw, (bytes, bytearray)):
        return 'rejected:no-bytes', []
    try:
        frames = rc.split_frames(bytes(raw))
        assert len(frames) == 1 and frames[0][0] == rc.UPDATE
        wd, attrs, nlri = rc.split_update(frames[0][1])
        got_w = rc.split_prefixes(wd, 32, addpath=True)
        got_n = rc.split_prefixes(nlri, 32, addpath=True)
    except (rc.WalkError, AssertionError) as e:
        return 'fail', [('addpath:malformed:%s' % _generalise(str(e)), '%s in %s' % (e, bytes(raw).hex()[:300]))]
    out = []
    for name, got, given in (('nlri', got_n, case['nlri']), ('withdraw', got_w, case['withdraw'])):
        want = [(e.get('path_id'), plen(e['prefix'])) for e in given]
        if [(p, l) for p, l, _ in got] != want:
            out.append(('addpath:skeleton:%s' % name, 'on the wire %r, given %r' % ([(p, l) for p, l, _ in got], want)))
    return ('fail' if out else 'ok'), out


BAD_PREFIXES = ['2001:db8::/32', '2001:db8::/64', '::/0', '::1/128', 'fe80::/10', '2001:db8:1:2::/25', '10.0.0.0/33', '10.0.0.0/-1',
                '256.1.1.1/8', '10.0.0.0', '', 'abc/8', '10.0.0.0/8/9', ' 10.0.0.0/8', '10.0.0.0/08', '0x0a000000/8', '10.0.0.0/255.0.0.0']


@st.composite
def invalid_prefix_case(draw):
    """a valid C06 case in which one element of the nlri / withdraw list is not an IPv4 prefix: the message is refused
    or, if the agent does build one, it is well formed"""
    case = draw(c06.update_case())
    bad = draw(st.sampled_from(BAD_PREFIXES))
    where = draw(st.sampled_from(['nlri', 'withdraw']))
    if where == 'nlri' and not case['attr']:
        where = 'withdraw'
    lst = list(case[where])
    lst.insert(draw(st.integers(0, len(lst))), bad)
    case[where] = lst
    case['bad'] = bad
    return case


def check_invalid_prefix(case):
    msg = c06.to_msg(case)
    status, raw, out = construct_update(msg, case['asn4'], 'update')
    if raw is None:
        return status, out            # refused: fine
    sk, out = walk(raw, case['asn4'], 'update')
    if sk is None:
        return 'fail', [('invalid-input:' + s, d) for s, d in out]
    return 'ok', []


OUT_OF_RANGE = [
    # (attribute, mode it applies to (None = both), value) - values that do not fit the field the attribute has in that mode
    ('7', False, [65536, '10.0.0.9']), ('7', False, [2 ** 32 - 1, '10.0.0.9']), ('7', False, [70000, '192.0.2.1']),
    ('7', None, [2 ** 32, '10.0.0.9']), ('7', None, [-1, '10.0.0.9']), ('7', None, [65001, '2001:db8::1']),
    ('2', False, [[2, [65536]]]), ('2', False, [[2, [65001, 2 ** 32 - 1, 65002]]]), ('2', None, [[2, [2 ** 32]]]),
    ('2', None, [[2, [65001] * 256]]), ('1', None, 256), ('1', None, -1), ('4', None, 2 ** 32), ('5', None, 2 ** 32),
    ('4', None, -1), ('8', None, ['65536:1']), ('8', None, [2 ** 32]), ('3', None, '2001:db8::1'), ('3', None, '10.0.0.256'),
    ('9', None, '10.0.0'), ('10', None, ['10.0.0.1', '2001:db8::1']),
]


@st.composite
def out_of_range_case(draw):
    """a valid C06 case in which one attribute value does not fit its field in the session's mode (AS above 65535
    on a two-octet-AS session, 2^32 in a four-octet field, ...): refused or, if a message is built, it is well formed"""
    case = draw(c06.update_case().filter(lambda c: c['attr']))
    code, mode, value = draw(st.sampled_from(OUT_OF_RANGE))
    if mode is not None:
        case['asn4'] = mode
        if not mode:       # keep the rest of the case inside the two-octet domain
            for k in ('2', '7', '17', '18'):
                if k != code and k in case['attr']:
                    del case['attr'][k]
                    case['order'].remove(int(k))
    if code not in case['attr']:
        case['order'].insert(draw(st.integers(0, len(case['order']))), int(code))
    case['attr'][code] = value
    case['oor'] = code
    return case


@st.composite
def oversize_case(draw):
    """a valid C06 case whose nlri / withdraw list is so long that the UPDATE nears or passes the 4096 octets RFC 4271 allows
    for a message: refused, or split - but whatever is built is a well-formed message of at most 4096 octets"""
    case = draw(c06.update_case())
    n = draw(st.one_of(st.sampled_from([700, 800, 810, 814, 815, 816, 820, 1000, 1023, 1024, 1300, 3000, 13200]), st.integers(600, 1400)))
    ln = draw(st.sampled_from([32, 32, 24, 25, 16]))
    where = draw(st.sampled_from(['nlri', 'withdraw', 'both']))
    pfx = ['%d.%d.%d.%d/%d' % (10 + (i >> 16), (i >> 8) & 255, i & 255 if ln > 16 else 0, (i * 128) & 255 if ln > 24 else 0, ln) for i in range(n)]
    if where in ('nlri', 'both') and case['attr']:
        case['nlri'] = pfx
    if where in ('withdraw', 'both') or not case['attr']:
        case['withdraw'] = pfx
    return case


def predicted_routes(facet, value):
    items = value.get('nlri') if 'nlri' in value else value.get('withdraw')
    out = []
    for r in items:
        if isinstance(r, str):
            out.append((plen(r), ceil8(plen(r))))
        elif 'prefix' in r:
            nl = len(r['label']) if 'label' in r and 'nlri' in value else 1
            out.append({'labels': nl, 'plen': plen(r['prefix'])})
        elif 'type' in r:
            out.append({'type': r['type']})
        else:
            out.append({'components': sorted(int(k) for k in r)})
    return out


def check_c07(case):
    facet, value = case['facet'], case['value']
    reach = 'nlri' in value
    attr = {14 if reach else 15: c07.to_construct(value)}
    if reach:
        attr.update({1: 0, 2: [(2, [65001])], 5: 100})
    status, raw, out = construct_update({'attr': attr}, True, facet)
    if raw is None:
        return status, out
    sk, out = walk(raw, True, facet)
    if sk is None:
        return 'fail', out
    code = 14 if reach else 15
    if code not in sk['attrs']:
        return 'fail', [('%s:skeleton:mp-attribute-missing' % facet, 'attributes %r' % sorted(sk['attrs']))]
    got = sk['attrs'][code]['routes']
    exp = predicted_routes(facet, value)
    if len(got) != len(exp):
        out.append(('%s:skeleton:route-count' % facet, '%d routes on the wire, %d given' % (len(got), len(exp))))
    else:
        for g, e in zip(got, exp):
            if isinstance(e, tuple):
                if tuple(g) != e:
                    out.append(('%s:skeleton:prefix-octets' % facet, 'route %r on the wire, predicted %r' % (g, e)))
                    break
            elif 'plen' in e:
                if g.get('plen') != e['plen'] or g.get('labels') != e['labels']:
                    out.append(('%s:skeleton:route' % facet, 'route %r on the wire, predicted %r' % (g, e)))
                    break
            elif 'type' in e:
                if g.get('type') != e['type']:
                    out.append(('%s:skeleton:evpn-type' % facet, '%r vs %r' % (g, e)))
                    break
            else:
                if [c[0] for c in g.get('components', [])] != e['components']:
                    out.append(('%s:skeleton:flowspec-components' % facet, 'components %r on the wire, given %r' % (g.get('components'), e['components'])))
                    break
    return ('fail' if out else 'ok'), out


def check_srte(case):
    facet = 'srte'
    if case['withdraw']:
        attr = {15: {'afi_safi': (1, 73), 'withdraw': case['nlri']}}
    else:
        attr = {1: 0, 2: [], 5: 100, 8: ['NO_ADVERTISE'], 14: {'afi_safi': (1, 73), 'nexthop': case['nexthop'], 'nlri': case['nlri']},
                23: case['tunnel']}
    status, raw, out = construct_update({'attr': attr}, True, facet)
    if raw is None:
        return status, out
    sk, out = walk(raw, True, facet)
    if sk is None:
        return 'fail', out
    code = 15 if case['withdraw'] else 14
    if sk['attrs'].get(code, {}).get('routes') != [{'bits': 96}]:
        out.append(('srte:skeleton:nlri', 'SR policy NLRI on the wire %r' % (sk['attrs'].get(code),)))
    if not case['withdraw']:
        t = case['tunnel']
        tl = sk['attrs'].get(23, {}).get('tlvs')
        if not tl or len(tl) != 1 or tl[0]['tunnel_type'] != 15:
            out.append(('srte:skeleton:tunnel-tlv', 'tunnel TLVs %r' % (tl,)))
        else:
            subs = tl[0]['sub']
            types = [s['type'] for s in subs]
            new = t['0'] == 'new'
            want = set()
            if '6' in t and not isinstance(t['6'], dict):
                want.add(6 if not new else None)
            if '12' in t or ('6' in t and not isinstance(t['6'], dict) and not new):
                want.add(12 if new else 6)
            want.discard(None)
            want.add(13 if new else 7)
            if new:
                for k, c in (('14', 14), ('15', 15), ('129', 129)):
                    if k in t:
                        want.add(c)
                if isinstance(t.get('6'), dict):
                    want.add(6)
            nonseg = set(x for x in types if x != 128)
            if new and isinstance(t.get('6'), dict):
                # key 6 is both the old preference and the new remote endpoint: with a remote endpoint present the
                # encoder leaves the preference out; a structurally valid message either way (not demanded here)
                nonseg.discard(12)
                want.discard(12)
            if nonseg != want:
                out.append(('srte:skeleton:sub-tlv-inventory:%s' % t['0'], 'sub-TLVs on the wire %r, predicted %r from %r' % (sorted(nonseg), sorted(want), {k: v for k, v in t.items() if k != '128'})))
            segl = [s for s in subs if s['type'] == 128]
            if len(segl) != len(t['128']):
                out.append(('srte:skeleton:segment-lists', '%d segment lists on the wire, %d given' % (len(segl), len(t['128']))))
            else:
                for s, given in zip(segl, t['128']):
                    want_t = ([9] if '9' in given else []) + [int(list(x)[0]) for x in given['1']]
                    if [x['type'] for x in s['segments']] != want_t:
                        out.append(('srte:skeleton:segments', 'segment sub-TLVs %r, given %r' % ([x['type'] for x in s['segments']], want_t)))
                        break
    return ('fail' if out else 'ok'), out


def check_pmsi(case):
    attr = {1: 0, 2: [], 5: 100, 14: {'afi_safi': (25, 70), 'nexthop': '10.0.0.1',
                                      'nlri': [{'type': 3, 'value': {'rd': '100:1', 'eth_tag_id': 0, 'ip': '10.0.0.1'}}]}, 22: case['pmsi']}
    if case['overlay'] is not None:
        attr[16] = [[780, case['overlay']]]
    status, raw, out = construct_update({'attr': attr}, True, 'pmsi')
    if raw is None:
        return status, out
    sk, out = walk(raw, True, 'pmsi')
    if sk is None:
        return 'fail', out
    if 22 not in sk['attrs']:
        out.append(('pmsi:skeleton:attribute-missing', 'attributes %r' % sorted(sk['attrs'])))
    return ('fail' if out else 'ok'), out


def check_fs6(case):
    rules = case['rules']
    if case['withdraw']:
        attr = {15: {'afi_safi': (2, 133), 'withdraw': rules}}
    else:
        attr = {1: 0, 2: [], 5: 100, 14: {'afi_safi': (2, 133), 'nexthop': case['nexthop'], 'nlri': rules}}
    status, raw, out = construct_update({'attr': attr}, True, 'fs6')
    if raw is None:
        return status, out
    sk, out = walk(raw, True, 'fs6')
    if sk is None:
        return 'fail', out
    code = 15 if case['withdraw'] else 14
    got = sk['attrs'].get(code, {}).get('routes', [])
    if len(got) != len(rules):
        out.append(('fs6:skeleton:rule-count', '%d rules on the wire, %d given' % (len(got), len(rules))))
    else:
        for g, r in zip(got, rules):
            if [c[0] for c in g['components']] != sorted(int(k) for k in r):
                out.append(('fs6:skeleton:components', 'components %r on the wire, given %r' % (g['components'], sorted(r))))
                break
    return ('fail' if out else 'ok'), out


def check_evpn5(case):
    pfx, gw = case['route']
    value = {'afi_safi': (25, 70), 'nexthop': '10.0.0.1',
             'nlri': [{'type': 5, 'value': {'rd': case['rd'], 'esi': case['esi'], 'eth_tag_id': case['eth_tag_id'], 'prefix': pfx,
                                            'gateway': gw, 'label': case['label']}}]}
    status, raw, out = construct_update({'attr': {1: 0, 2: [], 5: 100, 14: value}}, True, 'evpn5')
    if raw is None:
        return status, out
    sk, out = walk(raw, True, 'evpn5')
    if sk is None:
        return 'fail', out
    if [r.get('type') for r in sk['attrs'].get(14, {}).get('routes', [])] != [5]:
        out.append(('evpn5:skeleton:routes', '%r' % (sk['attrs'].get(14),)))
    return ('fail' if out else 'ok'), out


def check_open(case):
    my_caps = dict(case['caps'])
    if 'afi_safi' in my_caps:
        my_caps['afi_safi'] = [tuple(x) for x in my_caps['afi_safi']]
    try:
        raw = Open(version=4, asn=case['asn'], hold_time=case['hold'], bgp_id=case['id']).construct(my_caps)
    except Exception as e:
        return 'rejected:' + type(e).__name__, []
    sk, out = walk(raw, True, 'open')
    return ('fail' if out else 'ok'), out


def check_simple(case):
    k = case['k']
    try:
        if k == 'notif':
            raw = Notification().construct(case['code'], case['sub'], bytes.fromhex(case['data']))
        elif k == 'rr':
            raw = RouteRefresh(case['afi'], case['safi'], case['res']).construct(case['type'])
        else:
            raw = KeepAlive().construct()
    except Exception as e:
        return 'rejected:' + type(e).__name__, []
    sk, out = walk(raw, True, k)
    return ('fail' if out else 'ok'), out


# ------------------------------------------------------------------------------------------ session path
def check_session(case):
    """the same through BGP.send_* in a simulated session"""
    from vlib import session as ss
    from vlib.sim import Sim
    sim = Sim(local_as=case['local_as'], hold_time=case['hold'], add_path=case['add_path'], afi_safi=tuple(case['afi_safi']))
    c = ss.establish(sim, as4=True)
    out = []
    if sim.state != 'ESTABLISHED':
        return 'skipped', []
    p = sim.fsm.protocol
    p.send_keepalive()
    p.send_route_refresh(1, 1)
    p.send_update(c06.to_msg(case['update']))
    sim.reactor.settle(fire_due=True)
    p.send_notification(6, 2, b'bye')
    data = b''.join(b for _, b in c.transport.written)
    try:
        frames = rc.split_frames(data)
    except rc.WalkError as e:
        return 'fail', [('session:unframed', str(e))]
    for mt, body in frames:
        sk, o = walk(rc.frame(mt, body), True, 'session')
        out += o
    return ('fail' if out else 'ok'), out


session_case = st.fixed_dictionaries({
    'local_as': st.sampled_from([65001, 65536, 2 ** 32 - 1]), 'hold': st.sampled_from([0, 3, 180, 65535]),
    'add_path': st.sampled_from([None, 'ipv4_both']), 'afi_safi': st.lists(st.sampled_from(['ipv4', 'ipv6', 'vpnv4', 'evpn', 'flowspec']), min_size=1, max_size=4, unique=True),
    'update': c06.update_case()})

KINDS = {
    'c06': (lambda: c06.update_case(), check_c06),
    'invalid-prefix': (lambda: invalid_prefix_case(), check_invalid_prefix),
    'addpath': (lambda: addpath_case(), check_addpath),
    'out-of-range': (lambda: out_of_range_case(), check_invalid_prefix),
    'oversize': (lambda: oversize_case(), lambda case: (lambda r: (r[0], [(s.replace('invalid-input:', 'oversize:'), d_) for s, d_ in r[1]]))(check_invalid_prefix(case))),
    'srte': (lambda: srte_case, check_srte),
    'pmsi': (lambda: pmsi_case, check_pmsi),
    'fs6': (lambda: fs6_case, check_fs6),
    'evpn5': (lambda: evpn5_case, check_evpn5),
    'open-self': (lambda: c14.open_self_case(), check_open),
    'session': (lambda: session_case, check_session),
    'simple': (lambda: st.one_of(
        st.fixed_dictionaries({'k': st.just('notif'), 'code': vs.u8, 'sub': vs.u8, 'data': st.binary(max_size=40).map(bytes.hex)}),
        st.fixed_dictionaries({'k': st.just('rr'), 'afi': vs.u16, 'safi': vs.u8, 'res': vs.u8, 'type': st.sampled_from([5, 128])}),
        st.just({'k': 'keepalive'})), check_simple),
}


def _vpn_stack(v6):
    # construct-only: VPN routes with a label stack of 2-3 labels (the decoder reads one label per VPN route, so C07 does
    # not use them; what is written must still be structurally valid)
    route = st.fixed_dictionaries({'rd': vs.rd_text(), 'prefix': vs.prefix6(c07.v6len) if v6 else vs.prefix4(c07.v4len),
                                   'label': st.lists(vs.label, min_size=2, max_size=3)})
    nh = {'rd': st.just('0:0'), 'str': vs.ipv6_global if v6 else vs.ipv4_host}
    return st.fixed_dictionaries({'afi_safi': st.just([2 if v6 else 1, 128]), 'nexthop': st.fixed_dictionaries(nh),
                                  'nlri': st.lists(route, min_size=1, max_size=3)})


KINDS['vpn4-label-stack'] = (lambda: _vpn_stack(False).map(lambda v: {'facet': 'vpn4-reach', 'value': v}), check_c07)
KINDS['vpn6-label-stack'] = (lambda: _vpn_stack(True).map(lambda v: {'facet': 'vpn6-reach', 'value': v}), check_c07)
for _f in c07.FACETS:
    KINDS['c07:' + _f] = ((lambda f: (lambda: c07.facet_strategy(f).map(lambda v: {'facet': f, 'value': v})))(_f), check_c07)


def shards(tier):
    per = 700 if tier == 'quick' else 12000
    out = []
    for k in sorted(KINDS):
        for i in range(4 if k == 'c06' else 1):
            out.append({'name': '%s-%d' % (k, i), 'kind': k, 'examples': per, 'hypothesis': True})
    return out


def nontrivial(kind, case):
    if kind == 'c06':
        return len(case['attr']) >= 2
    if kind == 'simple':
        return False
    return True


def run_shard(spec, seed, col, tier):
    strat, fn = KINDS[spec['kind']]

    def body(case):
        status, res = fn(case)
        wrapped = {'kind': spec['kind'], 'case': case}
        col.case(wrapped, nontrivial(spec['kind'], case), labels=['kind:' + spec['kind'], 'status:' + status.split(':')[0]])
        for sig, detail in res:
            col.fail(sig, wrapped, detail)
    hyp_run(col, strat(), body, seed, spec['examples'])


def replay(case):
    return KINDS[case['kind']][1](case['case'])[1]
