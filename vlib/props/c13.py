"""C13 - operator stop is final until operator start.

Generator: a prefix from the unrestricted C12 alphabet (so "attempt in flight" is reachable),
then manual stop through the REST endpoint, then a continuation of environment events (late
answers to pending attempts, every armed timer firing, peer traffic / close on a still-open
connection, 10 x the longest timer of pure time), then manual start and a cooperative peer.
"""
from hypothesis import strategies as st

from vlib import refcodec as rc
from vlib import session as ss
from vlib.props.c12 import MDriver, pick as pick12
from vlib.runner import hyp_run

PROPERTY = 'C13'
RULE = ('prefix over the unrestricted C12 alphabet, then GET manual-stop, then a continuation of environment events '
        '(accept/refuse late attempts, peer messages/close, ticks, then 10 x 240 s of time), then GET manual-start and a '
        'cooperative peer; also a stop issued during the start-up delay, before the agent\'s first automatic start, and a stop that follows a start request within the same reactor turn. '
        'Non-trivial = stop issued outside Idle or with an attempt / timer pending; distinct by '
        '(prefix, continuation).')
ASSUMPTIONS = [
    'REST calls are atomic between reactor events',
    'bytes the agent wrote before the stop but that are still being flushed do not count; only writes after the stop reply',
]
EXHAUSTIVE = {'quick': False, 'thorough': False}
CONFIGS = [{'connect_retry': 60, 'hold': 180, 'idle_hold': 30}, {'connect_retry': 5, 'hold': 9, 'idle_hold': 5},
           {'connect_retry': 30, 'hold': 180, 'idle_hold': 30}, {'connect_retry': 60, 'hold': 180, 'idle_hold': 0},
           {'connect_retry': 1, 'hold': 3, 'idle_hold': 2}, {'connect_retry': 60, 'hold': 0, 'idle_hold': 30},
           {'connect_retry': 60, 'hold': 180, 'idle_hold': 30, 'seg': 3}]


def pick13(enabled, choice):
    """prefix events biased towards progress so that every session state is a frequent place for the stop"""
    weighted = []
    for ev in enabled:
        k = ev[0]
        w = 1
        if k == 'ok' or k == 'ka' or (k == 'open' and ev[2] == 'valid'):
            w = 6
        elif k in ('tick', 'io'):
            w = 3
        elif k in ('start',):
            w = 2
        elif k == 'stop':
            w = 1
        weighted += [ev] * w
    return weighted[choice % len(weighted)]


def cont_enabled(d):
    ev = []
    r = d.sim.reactor
    for i, c in enumerate(r.attempts()[:2]):
        ev += [['ok', i], ['refused', i]]
    for i, c in enumerate(d.live()[:2]):
        ev += [['ka', i], ['upd', i], ['open', i, 'valid', 90], ['close', i], ['notif', i, 'other']]
    if r.next_time() is not None:
        ev.append(['tick', 0])
    if r.pending_io():
        ev.append(['io'])
    if not d.booted:
        ev.append(['boot'])     # the start-up delay runs out: the agent's own first automatic start
    return ev


def run_case(case, explicit=False):
    cfg = case['cfg']
    d = MDriver(cfg)
    out = []
    if explicit:
        for ev in case['prefix']:
            if list(ev) not in d.enabled():
                return d, [], None
            d.apply(list(ev))
    elif case.get('warm') == 'preboot':
        pass            # the stop comes during the start-up delay, before the first automatic start
    else:
        d.apply(['boot'])
        for ev in {'none': [], 'opensent': [['ok', 0]], 'openconfirm': [['ok', 0], ['open', 0, 'valid', 90]],
                   'established': [['ok', 0], ['open', 0, 'valid', 90], ['ka', 0]]}[case.get('warm', 'none')]:
            d.apply(ev)
        for ch in case['prefix_choices']:
            ev = pick13(d.enabled(), ch)
            d.apply(ev)
    if case.get('queued_notif') and d.sim.state == 'ESTABLISHED' and d.live():
        # earlier in the session a handler asked the agent (through its internal queue) to send a NOTIFICATION; the agent
        # sends it when the next KEEPALIVE arrives and - as this agent does - keeps the session; the stop that follows is
        # judged like any other stop
        d.sim.handler.inter_mq.put({'type': 'notification', 'msg': {'error': 6, 'sub_error': 4, 'data': b''}})
        for _ in range(2):
            if d.sim.state == 'ESTABLISHED' and d.live():
                d.apply(['ka', 0])
    prefix = list(d.history)
    d.failures = []          # invariants of the prefix are C12's business
    sim, r = d.sim, d.sim.reactor
    # ---------------------------------------------------------------- stop
    if case.get('start_first'):
        # the operator's start request is followed by the stop request within the same reactor turn (both REST calls return
        # before the reactor runs anything they may have queued): the stop is the last word
        sim.rest('GET', '/v1/peer/%s/manual-start' % sim.config['remote_addr'], settle=False)
    state_before = sim.state
    had_live = bool(d.live())
    pend = bool(r.attempts())
    timers = bool(r.pending())
    nontrivial = state_before != 'IDLE' or pend or timers or not d.booted
    preboot = not d.booted
    mark = sim.mark()
    code, body = sim.manual_stop()
    r.settle(fire_due=True)
    tr = sim.since(mark)
    frames = []
    try:
        frames = ss.frames_written(tr)
    except rc.WalkError as e:
        out.append(('stop:unframed-output', str(e)))
    notifs = [(b[0], b[1]) for _, t, b in frames if t == rc.NOTIFICATION and len(b) >= 2]
    others = [t for _, t, b in frames if t != rc.NOTIFICATION]
    closed = any(k == 'loseConnection' for _, k, _, _ in tr)
    if code != 200 or not body or body.get('status') is not True:
        out.append(('stop:reply:%s' % code, 'manual-stop answered %s %r' % (code, body)))
    if state_before == 'ESTABLISHED':
        if len(notifs) != 1 or notifs[0][0] != 6:
            out.append(('stop:no-cease', 'stop in ESTABLISHED wrote notifications %r' % (notifs,)))
    else:
        if any(n[0] != 6 for n in notifs):
            out.append(('stop:wrong-notification:%s' % state_before, 'stop in %s wrote %r' % (state_before, notifs)))
    if others:
        out.append(('stop:other-messages', 'stop wrote message types %r' % (others,)))
    if had_live and not closed:
        out.append(('stop:no-close:%s' % state_before, 'stop in %s did not close the live connection' % state_before))
    if sim.state != 'IDLE':
        out.append(('stop:state:%s' % sim.state, 'state after stop is %s' % sim.state))
    if any(k == 'connectTCP' for _, k, _, _ in tr):
        out.append(('stop:connect-after-stop', 'a connection attempt was started after the manual-stop request (state before %s)' % state_before))
    if case.get('quick_restart'):
        # the operator starts the peer again at once - before the connectionLost of the stopped connection has been delivered,
        # while late answers may still arrive; environment events follow, then the peer behaves: the session must come up
        # and automatic recovery must be in force
        out += quick_restart(d, case, explicit)
        return d, out, {'cfg': cfg, 'prefix': prefix, 'cont': list(d.history[len(prefix):]), 'nontrivial': True,
                        'stopped_in': state_before + '+quick-restart', 'pending_attempt': pend}
    # ---------------------------------------------------------------- silence
    mark = sim.mark()
    cont = []
    if explicit:
        for ev in case['cont']:
            if list(ev) not in cont_enabled(d):
                return d, [], None
            d.apply(list(ev))
            cont.append(list(ev))
    else:
        if not d.booted:
            d.apply(['boot'])
            cont.append(['boot'])
        for ch in case['cont_choices']:
            en = cont_enabled(d)
            if not en:
                break
            ev = en[ch % len(en)]
            d.apply(ev)
            cont.append(ev)
    # pure time: 10 x the longest timer (deferred I/O completions are delivered first)
    while r.pending_io():
        r.deliver_io(0)
        r.settle(fire_due=True)
    horizon = r.now + 10 * 240.0
    guard = 0
    while r.next_time() is not None and r.next_time() <= horizon and guard < 500:
        r.advance_to(r.next_time())
        r.settle(fire_due=True)
        guard += 1
    r.advance_to(horizon)
    r.settle(fire_due=True)
    tr = sim.since(mark)
    for t, kind, cid, payload in tr:
        if kind == 'write':
            out.append(('silence:write:%s' % _mtype(payload), 'agent wrote %s at t=%s while stopped (continuation %r)'
                        % (payload.hex()[:80], t, cont)))
            break
    for t, kind, cid, payload in tr:
        if kind == 'connectTCP':
            out.append(('silence:connect', 'agent started a connection attempt at t=%s while stopped (continuation %r)' % (t, cont)))
            break
    if sim.state != 'IDLE':
        out.append(('silence:state:%s' % sim.state, 'reported state %s while stopped' % sim.state))
    if sim.rest_state() != sim.state:
        out.append(('silence:rest-state', 'REST state %r, FSM %s' % (sim.rest_state(), sim.state)))
    if d.open_connectors():
        out.append(('silence:connection-left-open', '%r still open while stopped' % [(c.id, c.state) for c in d.open_connectors()]))
    out += [f for f in d.failures if f[0].startswith(('escaped', 'livelock', 'stale-write'))]
    # ---------------------------------------------------------------- start
    mark = sim.mark()
    t0 = sim.now
    code, body = sim.manual_start()
    r.settle(fire_due=True)
    tr = sim.since(mark)
    if code != 200 or not body or body.get('status') is not True:
        out.append(('start:reply', 'manual-start from the stopped state answered %s %r' % (code, body)))
    if not any(k == 'connectTCP' and t == t0 for t, k, _, _ in tr):
        out.append(('start:no-immediate-connect', 'no connectTCP at the instant of manual-start'))
    bound = cfg['idle_hold'] + max(cfg['connect_retry'], 30) + 1
    est = ss.cooperate(sim, sim.now + bound, peer_hold=90)
    if est is None:
        out.append(('start:not-established:%s' % sim.state, 'not ESTABLISHED within %ss after manual-start' % bound))
    else:
        # automatic recovery is in force again: drop the session, it must come back by itself
        live = ss.live_connectors(sim)
        if live:
            r.peer_close(live[-1])
            r.settle(fire_due=True)
        if ss.cooperate(sim, sim.now + bound, peer_hold=90) is None:
            out.append(('start:no-automatic-recovery:%s' % sim.state, 'after manual-start a dropped session does not come back'))
        else:
            # manual start while Established changes nothing - not now and not later
            mark = sim.mark()
            timers0 = sorted((c_.name, round(c_.time, 6)) for c_ in r.pending())
            code, body = sim.manual_start()
            r.settle(fire_due=True)
            tr = [x for x in sim.since(mark) if x[1] in ('write', 'connectTCP', 'loseConnection')]
            if tr or sim.state != 'ESTABLISHED':
                out.append(('start-while-established:effect', 'manual-start in ESTABLISHED caused %r, state %s' % (tr, sim.state)))
            if not body or body.get('status') is not False:
                out.append(('start-while-established:reply', 'manual-start in ESTABLISHED answered %r' % (body,)))
            timers1 = sorted((c_.name, round(c_.time, 6)) for c_ in r.pending())
            if timers1 != timers0:
                out.append(('start-while-established:timers', 'pending timers %r before, %r after' % (timers0, timers1)))
            # the session goes on with the timers it negotiated (peer proposed 90 s): KEEPALIVE every 30 s, alive after 3 x 90 s
            H = min(cfg['hold'], 90)
            if H and not out:
                live = ss.live_connectors(sim)
                t_begin = sim.now
                okay = ss.stay_up(sim, H)
                kas = [t for t, k, cid, p in sim.since(mark) if k == 'write' and len(p) >= 19 and p[18] == 4]
                if not okay:
                    out.append(('start-while-established:session-ends-later', 'state %s within 3 hold times after a manual-start in ESTABLISHED'
                                % sim.state))
                else:
                    gaps = [b - a for a, b in zip([t_begin] + kas, kas + [sim.now])]
                    if not kas or max(gaps) > H / 3.0 + 1e-6:
                        out.append(('start-while-established:keepalive-cadence', 'KEEPALIVEs at %r after the manual-start (H=%s)' % (kas[:12], H)))
    return d, out, {'cfg': cfg, 'prefix': prefix, 'cont': cont, 'nontrivial': nontrivial, 'stopped_in': state_before if not preboot else 'PREBOOT',
                    'pending_attempt': pend}


def quick_restart(d, case, explicit):
    sim, r, cfg = d.sim, d.sim.reactor, case['cfg']
    out = []
    mark = sim.mark()
    t0 = sim.now
    code, body = sim.manual_start()
    r.settle(fire_due=True)
    if code != 200 or not body or body.get('status') is not True:
        out.append(('quick-restart:reply', 'manual-start right after the stop answered %s %r' % (code, body)))
    elif not any(k == 'connectTCP' and t == t0 for t, k, _, _ in sim.since(mark)):
        # "manual start from the stopped state begins connecting at once" - also while the connectionLost of the connection
        # the stop closed is still on its way
        out.append(('quick-restart:no-immediate-connect', 'no connectTCP at the instant of the manual-start that followed the stop (pending I/O: %d)'
                    % len(r.pending_io())))
    if explicit:
        for ev in case['cont']:
            if list(ev) not in cont_enabled(d):
                return out
            d.apply(list(ev))
    else:
        for ch in case['cont_choices']:
            en = [e for e in cont_enabled(d) if e[0] in ('io', 'refused', 'tick', 'close')]
            if not en:
                break
            d.apply(en[ch % len(en)])
    out += [f for f in d.failures if f[0].startswith(('escaped', 'livelock'))]
    # every armed timer may fire, every pending I/O completion arrives, failed attempts fail: then the peer cooperates
    while r.pending_io():
        r.deliver_io(0)
        r.settle(fire_due=True)
    for c_ in list(r.attempts()):
        r.refuse(c_)
        r.settle(fire_due=True)
    bound = cfg['idle_hold'] + max(cfg['connect_retry'], 30) + 240 + 1
    if ss.cooperate(sim, sim.now + bound, peer_hold=90) is None:
        out.append(('quick-restart:not-established:%s' % sim.state,
                    'not ESTABLISHED within %ss after stop + immediate start (pending timers %r)' % (bound, [c_.name for c_ in r.pending()])))
    return out


def _mtype(b):
    return {1: 'OPEN', 2: 'UPDATE', 3: 'NOTIFICATION', 4: 'KEEPALIVE'}.get(b[18] if len(b) > 18 else 0, 'other')


def shards(tier):
    n = 2000 if tier == 'quick' else 40000
    return [{'name': 'stop-%d' % i, 'kind': 'hyp', 'examples': n, 'hypothesis': True} for i in range(8 if tier == 'quick' else 16)]


def run_shard(spec, seed, col, tier):
    def body(case):
        d, res, info = run_case(case)
        explicit = {'cfg': info['cfg'], 'prefix': info['prefix'], 'cont': info['cont'], 'quick_restart': bool(case.get('quick_restart')),
                    'start_first': bool(case.get('start_first')), 'queued_notif': bool(case.get('queued_notif'))}
        col.case(explicit, info['nontrivial'], labels=['crt:%d' % info['cfg']['connect_retry'],
                                                      'stopped-in:' + _stop_state(info)])
        for sig, detail in res:
            col.fail(sig, explicit, detail)
    strat = st.fixed_dictionaries({'cfg': st.sampled_from(CONFIGS), 'warm': st.sampled_from(['none', 'none', 'opensent', 'openconfirm', 'established', 'established', 'preboot']),
                                   'prefix_choices': st.lists(st.integers(0, 999), min_size=0, max_size=16),
                                   'cont_choices': st.lists(st.integers(0, 999), min_size=0, max_size=6),
                                   'quick_restart': st.sampled_from([False, False, True]),
                                   'start_first': st.sampled_from([False, False, True]),
                                   'queued_notif': st.sampled_from([False, False, False, True])})
    hyp_run(col, strat, body, seed, spec['examples'])


def _stop_state(info):
    return info['stopped_in'] + ('+attempt' if info['pending_attempt'] else '')


def replay(case):
    d, res, info = run_case(case, explicit=True)
    return res
