"""C04 - byte-stream framing is independent of TCP segmentation and always terminates.

Generator: streams of session-preserving messages (+ optionally one framing violation, a
well-framed trailer and a truncated tail) delivered whole, with every 1-cut / 2-cut, byte at a
time and with random cuts.  Oracles: (1) differential against the reference deframer of
refcodec, (2) metamorphic equality of the complete reaction across segmentations, (3) framing
violation => exactly one NOTIFICATION(1, sub) + close, (4) deterministic work budget per chunk.
"""
import itertools

from hypothesis import strategies as st

from vlib import budget
from vlib import refcodec as rc
from vlib import session as ss
from vlib.runner import hyp_run
from vlib.sim import Sim

PROPERTY = 'C04'
RULE = ('streams = handshake-coalescing prefix or established session, then KEEPALIVE / marked UPDATE / '
        'body-malformed UPDATE / ROUTE-REFRESH, optionally one framing violation (marker, length, type, per-type length), trailer, '
        'truncated tail; each delivered whole and under 1-cuts, 2-cuts, byte-wise and random cuts; streams of 300 / 1100 / 3000 '
        'messages delivered in one segment and in several; the agent\'s own configuration varied (route-refresh kinds off, no capabilities at all, more families, rib + hold 9). Non-trivial = '
        'a message boundary strictly inside a segment or a segment boundary strictly inside a message; '
        'distinct by (stream, segmentation).')
ASSUMPTIONS = [
    'a header with several defects is judged in the order of the reference deframer: marker, then length, then type',
    'simnet transport semantics: after the agent calls loseConnection no further peer data is delivered',
    'the expected reaction to a framing violation is NOTIFICATION(1, subcode) then close; data field not compared',
    'per-type lengths of RFC 4271 6.1 are violations for OPEN (< 29), NOTIFICATION (< 21) and KEEPALIVE (!= 19); an UPDATE '
    'below 23 octets is a malformed UPDATE body, which this agent tolerates (C10), and ROUTE-REFRESH lengths are not '
    'used as the violating frame (RFC 2918 defines no reaction)',
]
EXHAUSTIVE = {'quick': False, 'thorough': False}

FILL = b'\x5a'


# ------------------------------------------------------------------------------------------ stream
def build(items):
    """-> (bytes, boundaries, meta) ; meta = list of expected-report descriptors per well-framed message"""
    out = b''
    for it in items:
        out += encode_item(it)
    return out


def encode_item(it):
    k = it[0]
    if k == 'K':
        return rc.keepalive()
    if k == 'U':
        return ss.marked_update(it[1])[0]
    if k == 'UM':
        return ss.marked_update(it[1], malformed=True)[0]
    if k == 'R':
        return rc.route_refresh(it[1], it[2], 0, it[3])
    if k == 'O':     # peer OPEN (handshake prefix); optional third element: extra capability codes the peer advertises
        extra = [rc.cap(code) for code in (it[2] if len(it) > 2 else [])]
        return rc.open_msg(65002, it[1], '10.0.0.2', caps=[rc.cap_mp(1, 1), rc.cap(2)] + extra, as4=True)
    if k == 'XM':    # corrupt marker: position, value
        m = bytearray(rc.MARKER)
        m[it[1]] = it[2]
        return bytes(m) + b'\x00\x13\x04'
    if k == 'XX':    # several defects in one header: marker octet position, value, declared length, type, body octets present
        m = bytearray(rc.MARKER)
        m[it[1]] = it[2]
        return bytes(m) + bytes([it[3] >> 8, it[3] & 0xFF, it[4]]) + FILL * it[5]
    if k == 'XL':    # bad length field: declared length, type, number of body octets actually present
        return rc.MARKER + bytes([it[1] >> 8, it[1] & 0xFF, it[2]]) + FILL * it[3]
    if k == 'XS':    # known type, length inside 19..4096 but not what RFC 4271 6.1 allows for that type (OPEN, NOTIFICATION, KEEPALIVE)
        return rc.frame(it[1], FILL * it[2])
    if k == 'XT':    # unknown type: type octet, body length
        return rc.frame(it[1], FILL * it[2])
    if k == 'RAW':   # arbitrary header (grid): declared length, type, body octets present
        return rc.MARKER + bytes([it[1] >> 8, it[1] & 0xFF, it[2]]) + FILL * it[3]
    if k == 'T':     # truncated tail: first n octets of a marked UPDATE
        return ss.marked_update(it[1])[0][:it[2]]
    raise ValueError(it)


def expected_reports(msgs):
    """Reference extraction -> the handler reports that must appear, in order."""
    exp = []
    for mtype, body in msgs:
        if mtype == rc.KEEPALIVE:
            exp.append(('keepalive',))
        elif mtype == rc.UPDATE:
            try:
                wd, attrs, nlri = rc.split_update(body)
                pf = [rc.prefix_text(pl, o) for _, pl, o in rc.split_prefixes(nlri)]
            except rc.WalkError:
                pf = None
            exp.append(('update', pf))
        elif mtype in (rc.ROUTE_REFRESH, rc.ROUTE_REFRESH_CISCO):
            afi, res, safi = rc.decode_route_refresh(body)
            exp.append(('rr', afi, res, safi, mtype))
        elif mtype == rc.OPEN:
            exp.append(('open',))
        else:
            exp.append(('other', mtype))
    return exp


def observed_reports(sim, since):
    out = []
    for t, kind, cid, payload in sim.since(since):
        if kind != 'handler':
            continue
        name, p = payload
        if name == 'keepalive_received':
            out.append(('keepalive',))
        elif name in ('update_received', 'on_update_error'):
            out.append(('update', list(p.get('nlri') or [])))
        elif name == 'route_refresh_received':
            m, mt = p
            out.append(('rr', m['afi'], m['res'], m['safi'], mt))
        elif name == 'open_received':
            out.append(('open',))
        elif name == 'notification_received':
            out.append(('other', 3))
        elif name in ('on_connection_lost', 'on_established', 'send_open'):
            continue
        else:
            out.append(('other', name))
    return out


# ------------------------------------------------------------------------------------------ run one
QUEUED = {
    # requests a handler may have left in the agent's internal queue (sent when the next KEEPALIVE arrives)
    'good': [{'type': 'update', 'msg': {'attr': {1: 0, 2: [(2, [65001])], 3: '10.0.0.1'}, 'nlri': ['10.250.0.0/16'], 'withdraw': []}}],
    'bad': [{'type': 'update', 'msg': {'attr': {1: 0, 2: [(2, [65001])], 3: '10.0.0.1'}, 'nlri': ['not-a-prefix'], 'withdraw': []}}],
    'both': [{'type': 'update', 'msg': {'attr': {1: 0, 2: [(2, [65001])], 3: '10.0.0.1'}, 'nlri': ['not-a-prefix'], 'withdraw': []}},
             {'type': 'update', 'msg': {'attr': {1: 0, 2: [(2, [65001])], 3: '10.0.0.1'}, 'nlri': ['10.250.0.0/16'], 'withdraw': []}}],
}


LOCAL = {
    # the agent's own configuration: what it advertises does not change which message types and lengths are well framed
    None: {},
    'no-rr': {'route_refresh': False}, 'no-cisco-rr': {'cisco_route_refresh': False},
    'no-rr-at-all': {'route_refresh': False, 'cisco_route_refresh': False, 'enhanced_route_refresh': False},
    'bare': {'route_refresh': False, 'cisco_route_refresh': False, 'enhanced_route_refresh': False, 'four_bytes_as': False,
             'graceful_restart': False, 'cisco_multi_session': False},
    'families': {'afi_safi': ('ipv4', 'ipv6', 'vpnv4', 'flowspec')},
    'rib-hold9': {'rib': True, 'hold_time': 9},
}


def deliver(mode, stream, cuts, queued=None, local=None):
    """Fresh agent, deliver `stream` cut at `cuts` (sorted offsets). Returns observation dict."""
    if mode == 'est':
        sim, c = ss.new_established(**LOCAL[local])
    else:
        sim, c = ss.new_established(upto='OPENSENT', **LOCAL[local])
    for req in QUEUED.get(queued) or []:
        import copy as _copy
        sim.handler.inter_mq.put(_copy.deepcopy(req))
    mark = sim.mark()
    pieces = []
    prev = 0
    for x in list(cuts) + [len(stream)]:
        if x > prev:
            pieces.append(stream[prev:x])
            prev = x
    over = None
    max_ratio = 0.0
    for p in pieces:
        lim = budget.allowance(len(p) + len(getattr(c.protocol, '_receive_buffer', b'')))
        with budget.region(lim) as r:
            sim.reactor.peer_send(c, p)
        if r.exceeded:
            over = len(p)
            break
        max_ratio = max(max_ratio, r.used / float(lim))
        sim.settle(fire_due=False)
    sim.settle(fire_due=False)
    tr = sim.since(mark)
    frames = []
    frame_err = None
    try:
        frames = ss.frames_written(tr, c.id)
    except rc.WalkError as e:
        frame_err = str(e)
    obs = {
        'reports': observed_reports(sim, mark),
        'written': [(t, b.hex()) for _, t, b in frames],
        'notifs': ss.notif_of(frames),
        'closed': any(k == 'loseConnection' for _, k, _, _ in tr),
        'state': sim.state,
        'escaped': [e[2:4] for e in sim.errors if e[2] != 'BudgetExceeded'],
        'over_budget': over,
        'frame_err': frame_err,
        'max_ratio': max_ratio,
    }
    return obs


def check_case(case, col):
    mode, items, cutsets = case['mode'], case['items'], case['cuts']
    stream = build(items)
    msgs, err, rest = rc.deframe(stream)
    # session-level expectations only make sense while the reference says the stream is still framed
    exp = expected_reports(msgs)
    sigs = []
    base = None
    for cuts in cutsets:
        if cuts == 'bytes':
            cuts_l = list(range(1, len(stream)))
        else:
            cuts_l = sorted(set(x for x in cuts if 0 < x < len(stream)))
        obs = deliver(mode, stream, cuts_l, case.get('queued'), case.get('local'))
        col.maximum('work_ratio', obs['max_ratio'])
        tag = 'whole' if not cuts_l else ('bytes' if cuts == 'bytes' else 'cut')
        if obs['over_budget'] is not None:
            sigs.append(('budget:%s' % _viol_kind(items), 'chunk of %d octets exceeded the work budget (%s)'
                         % (obs['over_budget'], tag)))
            continue
        if obs['escaped']:
            sigs.append(('escaped:%s@%s' % obs['escaped'][0], 'exception escaped dataReceived (%s)' % tag))
        if obs['frame_err']:
            sigs.append(('unframed-output', obs['frame_err']))
        # (1) differential vs reference deframer
        if obs['reports'] != exp:
            sigs.append(('extract:%s:%s' % (_viol_kind(items), _diff_kind(exp, obs['reports'])),
                         '%s delivery: expected reports %r, observed %r' % (tag, exp, obs['reports'])))
        # (3) reaction to the violation
        if err is not None:
            want = [(1, err[0])]
            if obs['notifs'] != want or not obs['closed']:
                sigs.append(('reaction:%s:%s' % (_viol_kind(items), _react_kind(want, obs)),
                             '%s delivery: expected NOTIFICATION %r + close, got notifs=%r closed=%r'
                             % (tag, want, obs['notifs'], obs['closed'])))
        else:
            if obs['notifs'] or obs['closed']:
                sigs.append(('spurious-close:%s' % _viol_kind(items),
                             '%s delivery: no framing violation but notifs=%r closed=%r' % (tag, obs['notifs'], obs['closed'])))
        # (2) metamorphic
        # (a request from the handler queue is handed to the reactor and written on a later turn: where it lands relative
        # to the agent's own immediate writes is not a matter of framing, so with a queued request the written frames are
        # compared as a multiset)
        key = (obs['reports'], sorted(obs['written']) if case.get('queued') else obs['written'], obs['closed'], obs['state'])
        if base is None:
            base = (key, tag)
        elif key != base[0]:
            sigs.append(('segmentation:%s' % _viol_kind(items),
                         'reaction differs between %s and %s delivery: %r vs %r' % (base[1], tag, base[0], key)))
    return sigs


def _viol_kind(items):
    for it in items:
        if it[0] in ('XM', 'XX'):
            return 'marker'
        if it[0] == 'XL':
            return 'len<19' if it[1] < 19 else 'len>4096'
        if it[0] == 'XT':
            return 'type'
        if it[0] == 'XS':
            return 'typed-len'
        if it[0] == 'RAW':
            return 'raw'
    return 'none'


def _diff_kind(exp, got):
    if len(got) > len(exp):
        return 'extra' if got[:len(exp)] == exp else 'different'
    if len(got) < len(exp):
        return 'missing' if exp[:len(got)] == got else 'different'
    return 'different'


def _react_kind(want, obs):
    if not obs['notifs']:
        return 'no-notification'
    if len(obs['notifs']) > 1:
        return 'repeated-notification'
    if obs['notifs'] != want:
        return 'wrong-code'
    return 'no-close'


# ------------------------------------------------------------------------------------------ strategies
def good_item(i):
    return st.one_of(
        st.just(['K']),
        st.just(['U', i]),
        st.just(['UM', i]),
        st.tuples(st.just('R'), st.sampled_from([1, 2, 25, 16388, 65535]), st.sampled_from([1, 4, 128, 133, 255]),
                  st.sampled_from([5, 128])).map(list),
    )


violation = st.one_of(
    st.tuples(st.just('XM'), st.integers(0, 15), st.sampled_from([0, 0x7F, 0xFE])).map(list),
    st.tuples(st.just('XL'), st.one_of(st.integers(0, 18), st.integers(4097, 65535), st.sampled_from([0, 1, 18, 4097, 65535])),
              st.sampled_from([1, 2, 3, 4, 5, 128]), st.integers(0, 12)).map(list),
    st.tuples(st.just('XT'), st.sampled_from([0, 6, 7, 127, 129, 255]), st.sampled_from([0, 1, 4, 10])).map(list),
    # a corrupt marker in a header whose length / type are wrong as well: the connection is not synchronised, whatever
    # the octets behind the marker say (the reference deframer looks at the marker first)
    st.tuples(st.just('XX'), st.integers(0, 15), st.sampled_from([0, 0x7F, 0xFE]), st.sampled_from([0, 18, 19, 20, 23, 4096, 4097, 65535]),
              st.sampled_from([0, 1, 2, 3, 4, 5, 9, 128, 255]), st.integers(0, 12)).map(list),
    st.sampled_from([['XS', 4, 1], ['XS', 4, 7], ['XS', 4, 300], ['XS', 1, 0], ['XS', 1, 9], ['XS', 3, 0], ['XS', 3, 1]]),
)


@st.composite
def stream_case(draw):
    mode = draw(st.sampled_from(['est', 'est', 'hs']))
    items = []
    if mode == 'hs':
        # (the peer may advertise capabilities the agent does not have, e.g. 6 = extended message: the framing rules stay)
        items.append(['O', draw(st.sampled_from([180, 90, 0, 30])), draw(st.sampled_from([[], [], [6], [6, 70], [9, 71]]))])
        items.append(['K'])
    n = draw(st.integers(0, 5))
    for i in range(n):
        items.append(draw(good_item(i + 1)))
    if draw(st.booleans()):
        items.append(draw(violation))
        for j in range(draw(st.integers(0, 2))):
            items.append(draw(good_item(100 + j)))
    if draw(st.integers(0, 3)) == 0:
        items.append(['T', 200, draw(st.integers(1, 40))])
    stream = build(items)
    cutsets = [[]]
    k = draw(st.integers(0, 3))
    for _ in range(k):
        cutsets.append(sorted(draw(st.sets(st.integers(1, max(1, len(stream) - 1)), min_size=1, max_size=4))))
    if draw(st.integers(0, 5)) == 0 and len(stream) <= 200:
        cutsets.append('bytes')
    case = {'mode': mode, 'items': items, 'cuts': cutsets, 'queued': draw(st.sampled_from([None, None, None, 'good', 'bad', 'both']))}
    local = draw(st.sampled_from([None, None] + sorted(k for k in LOCAL if k)))
    if local:
        case['local'] = local
    return case


# ------------------------------------------------------------------------------------------ shards
def shards(tier):
    n = 16
    out = []
    per = 1000 if tier == 'quick' else 3000
    for i in range(n):
        out.append({'name': 'streams-%d' % i, 'kind': 'hyp', 'examples': per, 'hypothesis': True})
    # exhaustive 1-cuts (and 2-cuts in the thorough tier) of fixed representative streams
    reps = representative_streams()
    for j, items in enumerate(reps):
        out.append({'name': 'cuts-%d' % j, 'kind': 'cuts', 'items': items, 'two': tier == 'thorough'})
    # very many messages in one segment (TCP delivers up to 64 KB per read)
    for j, n in enumerate((300, 1100, 3000)):
        out.append({'name': 'bulk-%d' % j, 'kind': 'bulk', 'n': n})
    out.append({'name': 'local-config', 'kind': 'local-grid'})
    # grids over the header fields
    if tier == 'quick':
        lens = [0, 1, 18, 19, 20, 22, 23, 29, 4096, 4097, 65535]
        types = list(range(256))
        blocks = [{'name': 'grid-types-%d' % b, 'kind': 'grid', 'lens': lens, 'types': types[b::8]} for b in range(8)]
        lens2 = list(range(0, 19)) + [4097, 4098, 8192, 32768, 65534, 65535]
        blocks.append({'name': 'grid-lens', 'kind': 'grid', 'lens': lens2, 'types': [0, 1, 2, 3, 4, 5, 6, 128, 255]})
    else:
        types = [0, 1, 2, 3, 4, 5, 6, 128, 255]
        blocks = []
        for b in range(32):
            blocks.append({'name': 'grid-len-%d' % b, 'kind': 'grid', 'lens': list(range(b, 65536, 32)), 'types': types})
        lens = [0, 1, 18, 19, 20, 22, 23, 29, 4096, 4097, 65535]
        blocks += [{'name': 'grid-types-%d' % b, 'kind': 'grid', 'lens': lens, 'types': list(range(256))[b::8]}
                   for b in range(8)]
    return out + blocks


def representative_streams():
    return [
        [['K'], ['U', 1], ['R', 1, 1, 5], ['K']],
        [['U', 1], ['UM', 2], ['U', 3]],
        [['K'], ['XL', 0, 4, 0], ['U', 9]],
        [['U', 1], ['XL', 18, 2, 3], ['K']],
        [['K'], ['XL', 4097, 2, 8], ['U', 9]],
        [['U', 1], ['XT', 7, 4], ['U', 9], ['K']],
        [['K'], ['XM', 15, 0xFE], ['U', 9]],
        [['K'], ['XX', 15, 0xFE, 4097, 2, 3], ['U', 9]],
        [['U', 2], ['XX', 0, 0, 18, 9, 0], ['K']],
        [['O', 90], ['K'], ['U', 1], ['K']],
        [['O', 90, [6]], ['K'], ['XL', 4097, 2, 8], ['U', 9]],
    ]


def run_shard(spec, seed, col, tier):
    kind = spec['kind']
    if kind == 'hyp':
        def body(case):
            sigs = check_case(case, col)
            stream = build(case['items'])
            nt = len(case['items']) >= 2 or any(c for c in case['cuts'])
            col.case(case, nt, labels=['mode:' + case['mode'], 'viol:' + _viol_kind(case['items']),
                                       'segmentations:%d' % len(case['cuts'])])
            for sig, detail in sigs:
                col.fail(sig, case, detail)
        hyp_run(col, stream_case(), body, seed, spec['examples'])
    elif kind == 'cuts':
        items = spec['items']
        stream = build(items)
        n = len(stream)
        mode = 'hs' if items and items[0][0] == 'O' else 'est'
        cutlists = [[x] for x in range(1, n)]
        if spec['two'] and n <= 130:
            cutlists += [list(p) for p in itertools.combinations(range(1, n), 2)]
        elif n <= 130:
            step = 7
            cutlists += [list(p) for p in itertools.combinations(range(1, n, step), 2)]
        # batches: whole + 40 cut lists per case so that the metamorphic comparison has a base
        for i in range(0, len(cutlists), 40):
            case = {'mode': mode, 'items': items, 'cuts': [[]] + cutlists[i:i + 40] + (['bytes'] if i == 0 else [])}
            sigs = check_case(case, col)
            col.bulk(len(case['cuts']), len(case['cuts']) - 1, label='exhaustive-cuts',
                     sample=({'mode': mode, 'items': items, 'cuts': case['cuts'][:3]} if i == 0 else None))
            for sig, detail in sigs:
                col.fail(sig, {'mode': mode, 'items': items, 'cuts': case['cuts']}, detail)
    elif kind == 'local-grid':
        # every local configuration x every known message type / one violation of each kind, whole and cut
        streams = [[['K'], ['U', 1], ['R', 1, 1, 5], ['K']], [['R', 1, 1, 128], ['U', 2]], [['R', 2, 128, 5], ['R', 25, 70, 128], ['K']],
                   [['UM', 1], ['R', 1, 1, 5]], [['K'], ['XT', 6, 4], ['K']], [['K'], ['XL', 18, 5, 0], ['K']],
                   [['R', 1, 1, 5], ['XM', 3, 0], ['K']], [['XS', 4, 7], ['R', 1, 1, 5]], [['K'], ['XX', 15, 0, 18, 3, 0], ['K']],
                   [['XX', 0, 0x7F, 4097, 9, 4]]]
        for local in sorted(k for k in LOCAL if k):
            for mode in ('est', 'hs'):
                for items in streams:
                    its = ([['O', 90, []], ['K']] if mode == 'hs' else []) + items
                    L = len(build(its))
                    case = {'mode': mode, 'items': its, 'cuts': [[], [L // 3, 2 * L // 3], [L - 1]], 'local': local}
                    sigs = check_case(case, col)
                    col.case(case, True, labels=['local-config-grid', 'local:' + local])
                    for sig, detail in sigs:
                        col.fail(sig, case, detail)
    elif kind == 'bulk':
        n = spec['n']
        for tail in ([['U', 7]], [['U', 7], ['XM', 15, 0xFE], ['U', 9]], [['XL', 18, 2, 3], ['K']]):
            items = [['K']] * n + tail
            stream = build(items)
            L = len(stream)
            cutsets = [[], [L // 2], list(range(1000, L, 1000)), list(range(19 * 7, L, 19 * 7)), [19 * 1024], [19 * 1024 + 5, L - 3]]
            case = {'mode': 'est', 'items': items, 'cuts': cutsets}
            sigs = check_case(case, col)
            col.bulk(len(cutsets), len(cutsets), label='bulk-segments',
                     sample={'mode': 'est', 'items': [['K'], '... x%d' % n] + tail, 'cuts': [[], [L // 2]]})
            for sig, detail in sigs:
                col.fail(sig, {'mode': 'est', 'items': items, 'cuts': cutsets}, detail[:600])
    elif kind == 'grid':
        for ln in spec['lens']:
            for ty in spec['types']:
                present = max(0, min(ln, 4096) - 19) if 19 <= ln <= 4096 else 3
                if ln in (19, 20, 22, 23, 29) or ln < 19 or ln > 4096 or ln % 512 == 0:
                    pass
                elif ty not in (0, 6, 255) and ln > 64:
                    # well-framed frames with a valid type and a long filler body: only sampled
                    # (their handling is C10/C11's business); every length is still covered for
                    # the unknown types, where the framing decision is made
                    continue
                items = [['K'], ['RAW', ln, ty, present], ['U', 7]]
                stream = build(items)
                h = 19 + 19
                case = {'mode': 'est', 'items': items, 'cuts': [[], [19], [h], [19, len(stream) - 1]]}
                sigs = check_grid_case(case)
                col.bulk(1, 1, label='grid')
                for sig, detail in sigs:
                    col.fail(sig, case, detail)
        col.samples.append({'mode': 'est', 'items': [['K'], ['RAW', spec['lens'][0], spec['types'][0], 3], ['U', 7]],
                            'cuts': [[], [19]]})
    else:
        raise ValueError(kind)


def check_grid_case(case):
    """Grid cases: the middle frame has an arbitrary (length, type).  If the reference deframer
    calls it a violation the full C04 expectations apply; if it is well framed only the generic
    rules are demanded (segmentation independence, budget, nothing reported after a close, and the
    trailer reported exactly once if the session is still up)."""
    items = case['items']
    stream = build(items)
    msgs, err, rest = rc.deframe(stream)
    raw = items[1]
    ln, ty = raw[1], raw[2]
    violation3 = ln < 19 or ln > 4096 or ty not in rc.KNOWN_TYPES
    # per-type lengths of RFC 4271 6.1 (UPDATE below its minimum is a malformed UPDATE body for this agent: C10)
    typed = (ty == 4 and ln != 19) or (ty == 1 and ln < 29) or (ty == 3 and ln < 21)
    if violation3 or typed:
        return check_case_with(case, stream, [('keepalive',)], (3 if (19 <= ln <= 4096 and ty not in rc.KNOWN_TYPES) else 2))
    sigs = []
    base = None
    for cuts in case['cuts']:
        obs = deliver('est', stream, sorted(set(x for x in cuts if 0 < x < len(stream))))
        tag = 'whole' if not cuts else 'cut'
        if obs['over_budget'] is not None:
            sigs.append(('budget:raw', 'work budget exceeded (%s)' % tag))
            continue
        if obs['escaped']:
            sigs.append(('escaped:%s@%s' % obs['escaped'][0], 'exception escaped dataReceived'))
        trailer = ('update', ['10.0.7.0/24'])
        n_tr = obs['reports'].count(trailer)
        if obs['closed'] and n_tr:
            sigs.append(('after-close:raw', 'trailer reported although the agent closed (%s): %r' % (tag, obs['reports'])))
        if any(n[0] == 1 for n in obs['notifs']):
            # the reference deframer of the property (marker, 19 <= length <= 4096, known type) extracts this frame, so
            # the agent must not call it a framing violation
            sigs.append(('header-error-on-well-framed:raw', 'Message Header Error %r for a frame the reference deframer '
                         'extracts (%s): type %d length %d' % (obs['notifs'], tag, ty, ln)))
        if not obs['closed'] and obs['state'] == 'ESTABLISHED' and n_tr != 1:
            sigs.append(('trailer-count:raw', 'session up but trailer reported %d times (%s)' % (n_tr, tag)))
        key = (obs['reports'], obs['written'], obs['closed'], obs['state'])
        if base is None:
            base = (key, tag)
        elif key != base[0]:
            sigs.append(('segmentation:raw', 'reaction differs between segmentations: %r vs %r' % (base[0], key)))
    return sigs


def check_case_with(case, stream, exp, sub):
    sigs = []
    base = None
    items = case['items']
    vk = 'len<19' if items[1][1] < 19 else ('len>4096' if items[1][1] > 4096 else ('type' if sub == 3 else 'typed-len'))
    for cuts in case['cuts']:
        obs = deliver('est', stream, sorted(set(x for x in cuts if 0 < x < len(stream))))
        tag = 'whole' if not cuts else 'cut'
        if obs['over_budget'] is not None:
            sigs.append(('budget:%s' % vk, 'work budget exceeded (%s)' % tag))
            continue
        if obs['escaped']:
            sigs.append(('escaped:%s@%s' % obs['escaped'][0], 'exception escaped dataReceived'))
        if obs['reports'] != exp:
            sigs.append(('extract:%s:%s' % (vk, _diff_kind(exp, obs['reports'])),
                         '%s delivery: expected reports %r, observed %r' % (tag, exp, obs['reports'])))
        want = [(1, sub)]
        if obs['notifs'] != want or not obs['closed']:
            sigs.append(('reaction:%s:%s' % (vk, _react_kind(want, obs)),
                         '%s delivery: expected NOTIFICATION %r + close, got %r closed=%r'
                         % (tag, want, obs['notifs'], obs['closed'])))
        key = (obs['reports'], obs['written'], obs['closed'], obs['state'])
        if base is None:
            base = (key, tag)
        elif key != base[0]:
            sigs.append(('segmentation:%s' % vk, 'reaction differs between segmentations: %r vs %r' % (base[0], key)))
    return sigs


def replay(case):
    if any(it[0] == 'RAW' for it in case['items']):
        return check_grid_case(case)
    col = _Null()
    return check_case(case, col)


class _Null(object):
    def maximum(self, *a):
        pass
