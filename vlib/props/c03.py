"""C03 - hold and keepalive timers keep exactly the negotiated contract.

Generator: configured x proposed hold time from {0,3,4,9,30,90,180,65535}, then a peer arrival
schedule of (gap, kind, tie-order) with gaps just below / at / above H and H/3, bursts and long
runs.  Oracle computed from the schedule alone (not from the implementation's timers).
"""
from hypothesis import strategies as st

from vlib import corpus
from vlib import refcodec as rc
from vlib import session as ss
from vlib.runner import hyp_run
from vlib.sim import Sim

PROPERTY = 'C03'
RULE = ('configured x proposed hold in {0,3,4,9,30,90,180,65535}; phases: established schedule / silent after TCP accept '
        '(OpenSent wait) / silent after OPEN (OpenConfirm wait); schedule = list of (gap class, KEEPALIVE|UPDATE, '
        'message-first|timer-first) with gap in {H-eps,H,H+eps,H/3-eps,H/3,H/3+eps,0,small}, eps in {0.001,1}; session on the first connection attempt, after a refused one, or on the retry made while the first is still unanswered. '
        'Non-trivial = a gap >= H/3 and either an exact tie or a gap within eps of H; distinct by (config, schedule).')
ASSUMPTIONS = [
    'tolerance 1e-6 s on H/3 (floating point division); the simulator fires a timer exactly at its due time',
    'when an arrival coincides with the hold expiry both orders are generated and the expectation follows the order',
    'arrival kinds KK / KU / UK / KUK: the messages reach the agent in one TCP segment',
    'an "UPDATE that arrives" is any UPDATE message the agent keeps the session up for: well-formed ones of every address '
    'family (vlib/corpus) and body-malformed ones, which this agent tolerates (C10)',
]
EXHAUSTIVE = {'quick': False, 'thorough': False}
HOLDS = [0, 3, 4, 5, 8, 9, 20, 30, 90, 180, 65534, 65535]      # all three residues mod 3 (H/3 is not always a whole number)
TOL = 1e-6


def gap_value(cls, H, eps):
    return {'H-e': H - eps, 'H': H, 'H+e': H + eps, 'H/3-e': H / 3.0 - eps, 'H/3': H / 3.0, 'H/3+e': H / 3.0 + eps,
            '0': 0.0, 'small': min(0.5, H / 10.0), '2H/3': 2 * H / 3.0, 'H/2': H / 2.0}[cls]


def kas(sim, cid, since_t=None):
    out = []
    for t, kind, c, payload in sim.reactor.transcript:
        if kind == 'write' and c == cid:
            try:
                for mt, body in rc.split_frames(payload):
                    out.append((t, mt, body))
            except rc.WalkError:
                out.append((t, -1, payload))
    return out


def operator_send(sim, kind, i):
    """arrival kinds ending in '+S': at the same instant the operator has the agent send an UPDATE through the REST API
    (what the agent sends must not disturb its own keepalive schedule)"""
    if kind.endswith('+S'):
        sim.rest('POST', '/v1/peer/10.0.0.2/send/update',
                 json_body={'attr': {'1': 0, '2': [[2, [65001]]], '3': '10.0.0.1'}, 'nlri': ['10.%d.%d.0/24' % (i % 250, i % 7)]})
        sim.reactor.settle(fire_due=False)


def arrival_msg(kind, i):
    kind = kind[:-2] if kind.endswith('+S') else kind
    return _arrival_msg(kind, i)


def _arrival_msg(kind, i):
    """'K' KEEPALIVE, 'U' the small marked IPv4 UPDATE, 'U:<k>' well-formed UPDATE body k of vlib.corpus"""
    if kind == 'K':
        return rc.keepalive()
    if kind in ('KK', 'KU', 'UK', 'KUK'):
        # several messages that TCP delivers in one segment
        return b''.join(rc.keepalive() if ch == 'K' else ss.marked_update(i + 1 + n)[0] for n, ch in enumerate(kind))
    if kind == 'UM':
        # an UPDATE whose body fails the agent's checks (ORIGIN 5): tolerated (C10) and still an UPDATE that arrived
        return ss.marked_update(i + 1, malformed=True)[0]
    if kind.startswith('U:'):
        bodies = corpus.update_bodies()
        return rc.frame(rc.UPDATE, bodies[int(kind[2:]) % len(bodies)][1])
    return ss.marked_update(i + 1)[0]


def _gapclass(cls):
    # one root cause, one signature: only whether the gap is at the hold-time boundary matters
    return 'gap~H' if cls in ('H-e', 'H', 'H+e') else 'gap<H'


def run_case(case):
    conf, prop, phase, eps = case['conf'], case['prop'], case['phase'], case['eps']
    H = min(conf, prop)
    out = []
    # ('slow': the ConnectRetry time is shorter than the 30 s the TCP attempt itself takes to give up, so the retry is made
    # while the first attempt is still unanswered)
    sim = Sim(hold_time=conf, keep_alive_time=case.get('conf_ka', 60), idle_hold_time=5,
              connect_retry_time={'slow': 10, 'slow-tie': 30}.get(case.get('connect'), 60))
    r = sim.reactor
    r.segments = case.get('seg')        # every peer message arrives in that many TCP segments (at one instant)
    prev = case.get('prev')
    if prev and phase != 'opensent':
        # an earlier session of the same agent with another negotiated hold time, ended one way or another: the timers of
        # the session under test follow ITS negotiation only
        c0 = ss.establish(sim, hold=prev['prop'])
        if c0 is not None and sim.state == 'ESTABLISHED':
            how = prev['end']
            if how == 'stop-start':
                sim.manual_stop()
                r.settle(fire_due=True)
                sim.manual_start()
            elif how == 'notif-ver':
                r.peer_send(c0, rc.notification(2, 1))
            elif how == 'marker':
                r.peer_send(c0, b'\x00' * 19)
            else:
                r.peer_close(c0)
            r.settle(fire_due=True)
            for lc in ss.live_connectors(sim):
                if lc is c0:
                    r.peer_close(c0)
                    r.settle(fire_due=True)
        guard = 0
        while not r.attempts() and r.next_time() is not None and guard < 50:
            r.advance_to(r.next_time())
            r.settle(fire_due=True)
            guard += 1
        if not r.attempts():
            return [('prev-session:no-new-attempt:%s' % prev['end'], 'no connection attempt after the earlier session')]
    how_c = case.get('connect')
    if how_c and phase != 'opensent' and not prev:
        # how the TCP connection of the session came about: the first attempt is refused / gets no answer until the agent
        # tries again; the attempt that is then accepted carries the session, whose timers are those of the negotiation only
        sim.boot()
        first = r.attempts()[-1] if r.attempts() else None
        if first is not None and how_c == 'refused':
            r.refuse(first)
            r.settle(fire_due=True)
        guard = 0
        while guard < 50 and r.next_time() is not None and not [a for a in r.attempts() if a is not first]:
            r.advance_to(r.next_time())
            r.settle(fire_due=True)
            guard += 1
        if not [a for a in r.attempts() if a is not first]:
            return [('connect-history:no-second-attempt:%s' % how_c, 'no further connection attempt after the first one (%s)' % how_c)]
    c = ss.connect(sim)
    r.settle(fire_due=True)
    if phase == 'opensent':
        # peer accepted TCP and stays silent: fixed 4-minute large hold time
        r.advance_to(240.0 - 0.001)
        r.settle(fire_due=True)
        w = kas(sim, c.id)
        if any(mt == rc.NOTIFICATION for _, mt, _ in w) or sim.state != 'OPENSENT':
            out.append(('opensent:early', 'gave up before 240 s: state %s writes %r' % (sim.state, [(t, mt) for t, mt, _ in w])))
            return out
        r.advance_to(240.0)
        r.settle(fire_due=True)
        w = [(t, mt, b) for t, mt, b in kas(sim, c.id) if mt == rc.NOTIFICATION]
        if len(w) != 1 or w[0][0] != 240.0 or w[0][2][0] != 4:
            out.append(('opensent:no-expiry-at-240', 'NOTIFICATIONs %r, state %s' % ([(t, b[:2].hex()) for t, _, b in w], sim.state)))
        elif not any(k == 'loseConnection' for _, k, _, _ in r.transcript):
            out.append(('opensent:no-close', 'hold expiry without close'))
        return out
    r.peer_send(c, ss.peer_open(sim, hold=prop))
    r.settle(fire_due=True)
    if sim.state != 'OPENCONFIRM':
        out.append(('handshake:openconfirm:%s' % sim.state, 'after valid OPEN (hold %d) state is %s' % (prop, sim.state)))
        return out
    t_oc = r.now
    if case.get('second_open') is not None:
        # the peer repeats its OPEN with another hold time while the agent waits for the KEEPALIVE; an agent that lets it pass
        # (no answer, still OpenConfirm) keeps the timers of the first negotiation
        mark2 = sim.mark()
        r.peer_send(c, ss.peer_open(sim, hold=case['second_open']))
        r.settle(fire_due=True)
        if sim.state != 'OPENCONFIRM' or any(k in ('write', 'loseConnection') for _, k, cid, _ in sim.since(mark2)):
            return out          # the agent reacted to the second OPEN (FSM error / Cease): another story
    last = t_oc                   # last arrival that restarts the hold timer
    dead_at = None
    end = None
    if phase == 'openconfirm':
        if H == 0:
            r.advance(10 * 240.0)
            r.settle(fire_due=True)
            if sim.state != 'OPENCONFIRM':
                out.append(('openconfirm:H0:ended', 'state %s after silence with hold time 0' % sim.state))
            end = r.now
        else:
            dead_at = t_oc + H
            r.advance_to(dead_at + 1)
            r.settle(fire_due=True)
            end = dead_at
    else:
        # the first KEEPALIVE may come some time after the OPEN (within the hold time counted from the OPEN)
        kd = case.get('ka_delay', '0')
        if H > 0 and kd != '0':
            d = max(0.0, min(gap_value(kd, H, eps), H - min(eps, H / 10.0)))
            r.advance_to(t_oc + d)
            r.settle(fire_due=True)
            if sim.state != 'OPENCONFIRM':
                out.append(('early-end:openconfirm-wait', 'state %s at t=%s while waiting %ss (< H=%s) for the first KEEPALIVE'
                            % (sim.state, r.now, d, H)))
                return out
            last = r.now
        r.peer_send(c, rc.keepalive())
        r.settle(fire_due=True)
        if sim.state != 'ESTABLISHED':
            out.append(('handshake:established:%s' % sim.state, 'after KEEPALIVE state is %s' % sim.state))
            return out
        if H == 0:
            # silence never ends the session, arrivals are harmless
            for i, (cls, kind, order) in enumerate(case['schedule'][:6]):
                r.advance(240.0 * (i + 1))
                r.settle(fire_due=True)
                operator_send(sim, kind, i)
                r.peer_send(c, arrival_msg(kind, i))
                r.settle(fire_due=True)
            r.advance(10 * 240.0)
            r.settle(fire_due=True)
            if sim.state != 'ESTABLISHED':
                out.append(('H0:ended', 'session with hold time 0 ended (state %s)' % sim.state))
            end = r.now
        else:
            for i, (cls, kind, order) in enumerate(case['schedule']):
                gap = max(0.0, gap_value(cls, H, eps))
                T = last + gap
                expiry = last + H
                if T > expiry + 1e-12 or (abs(T - expiry) <= 1e-12 and order == 'timer'):
                    dead_at = expiry
                    break
                r.advance_to(T, include_equal=(order == 'timer'))
                r.settle(fire_due=False)
                if sim.state != 'ESTABLISHED':
                    out.append(('early-end:before-arrival:%s' % _gapclass(cls),
                                'session left ESTABLISHED at t=%s before arrival %d (last arrival %s, H=%s)' % (r.now, i, last, H)))
                    return out + audit(sim, c, H, t_oc, r.now, None)
                operator_send(sim, kind, i)
                delivered = r.peer_send(c, arrival_msg(kind, i))
                r.settle(fire_due=True)
                if not delivered or sim.state != 'ESTABLISHED':
                    out.append(('arrival-not-accepted:%s:%s' % (_gapclass(cls), order),
                                'arrival %d at t=%s (last %s, H=%s, order %s) -> delivered=%s state=%s'
                                % (i, T, last, H, order, delivered, sim.state)))
                    return out + audit(sim, c, H, t_oc, r.now, None)
                last = T
            if dead_at is None:
                dead_at = last + H
            r.advance_to(dead_at - min(eps, H / 10.0))
            r.settle(fire_due=True)
            if sim.state != 'ESTABLISHED':
                out.append(('early-end:before-expiry', 'state %s at t=%s, expiry due %s' % (sim.state, r.now, dead_at)))
                return out + audit(sim, c, H, t_oc, r.now, None)
            r.advance_to(dead_at + 1)
            r.settle(fire_due=True)
            end = dead_at
    return out + audit(sim, c, H, t_oc, end, dead_at)


def audit(sim, c, H, t_oc, end, dead_at):
    out = []
    w = kas(sim, c.id)
    ka_times = [t for t, mt, _ in w if mt == rc.KEEPALIVE]
    notifs = [(t, b) for t, mt, b in w if mt == rc.NOTIFICATION]
    if H == 0:
        if len(ka_times) != 1:
            out.append(('H0:keepalives=%d' % min(len(ka_times), 3), 'with hold time 0 the agent sent KEEPALIVEs at %r' % (ka_times[:8],)))
        if notifs:
            out.append(('H0:notification', 'NOTIFICATION %r with hold time 0' % ([(t, b[:2].hex()) for t, b in notifs],)))
        return out
    # keepalive spacing
    if not ka_times or ka_times[0] != t_oc:
        out.append(('keepalive:first', 'first KEEPALIVE at %r, OpenConfirm entered at %s' % (ka_times[:1], t_oc)))
    pts = [t for t in ka_times if t <= end] + [end]
    prev = t_oc
    for t in pts:
        if t - prev > H / 3.0 + TOL:
            out.append(('keepalive:gap', 'no KEEPALIVE between %s and %s (H/3 = %s)' % (prev, t, H / 3.0)))
            break
        prev = t
    if dead_at is not None:
        if len(notifs) != 1:
            out.append(('expiry:notifications=%d' % min(len(notifs), 3), 'expected one NOTIFICATION at %s, got %r'
                        % (dead_at, [(t, b[:2].hex()) for t, b in notifs])))
        else:
            t, b = notifs[0]
            if abs(t - dead_at) > TOL:
                out.append(('expiry:time:%s' % ('late' if t > dead_at else 'early'),
                            'Hold Timer Expired sent at %s, silence reached H at %s' % (t, dead_at)))
            if b[0] != 4:
                out.append(('expiry:code=%d' % b[0], 'NOTIFICATION code %d at hold expiry' % b[0]))
        lose = [t for t, k, cid, _ in sim.reactor.transcript if k == 'loseConnection' and cid == c.id]
        if not lose or abs(lose[0] - dead_at) > TOL:
            out.append(('expiry:close', 'loseConnection at %r, expiry at %s' % (lose[:1], dead_at)))
    else:
        if notifs:
            out.append(('spurious-notification', 'NOTIFICATION %r although arrivals kept the session alive'
                        % ([(t, b[:2].hex()) for t, b in notifs],)))
    return out


GAPS = ['H-e', 'H', 'H+e', 'H/3-e', 'H/3', 'H/3+e', '0', 'small', '2H/3', 'H/2']
NBODIES = len(corpus.update_bodies())
arrival = st.tuples(st.sampled_from(GAPS + ['H-e', 'H', '2H/3', 'H/2']),
                    st.one_of(st.sampled_from(['K', 'U', 'UM', 'K+S', 'U+S', 'K', 'U', 'KK', 'KU', 'UK', 'KUK']), st.integers(0, NBODIES - 1).map(lambda k: 'U:%d' % k)),
                    st.sampled_from(['msg', 'timer'])).map(list)
case_strategy = st.fixed_dictionaries({
    'conf': st.one_of(st.sampled_from(HOLDS), st.integers(3, 400)), 'prop': st.one_of(st.sampled_from(HOLDS), st.integers(3, 400)), 'conf_ka': st.sampled_from([60, 60, 1, 7, 600]),
    'ka_delay': st.sampled_from(['0', '0', 'small', 'H/3', 'H/2', '2H/3', 'H-e']),
    'phase': st.sampled_from(['est', 'est', 'est', 'est', 'opensent', 'openconfirm']),
    'eps': st.sampled_from([0.001, 1.0]),
    'second_open': st.sampled_from([None, None, None, 0, 3, 9, 65535]),
    'connect': st.sampled_from([None, None, None, 'refused', 'slow', 'slow-tie']),
    'seg': st.sampled_from([None, None, None, 2, 4]),
    'prev': st.one_of(st.none(), st.none(), st.fixed_dictionaries({
        'prop': st.sampled_from(HOLDS), 'end': st.sampled_from(['stop-start', 'notif-ver', 'marker', 'close'])})),
    'schedule': st.one_of(st.lists(arrival, max_size=8), st.lists(arrival, min_size=15, max_size=30))})


def nontrivial(case):
    if case['phase'] != 'est':
        return True
    big = any(a[0] in ('H/3', 'H/3+e', 'H-e', 'H', 'H+e', '2H/3', 'H/2') for a in case['schedule'])
    near = any(a[0] in ('H-e', 'H', 'H+e') for a in case['schedule'])
    return big and near


def shards(tier):
    out = [{'name': 'schedules-%d' % i, 'kind': 'hyp', 'examples': 1500 if tier == 'quick' else 40000, 'hypothesis': True}
           for i in range(12 if tier == 'quick' else 16)]
    out.append({'name': 'grid', 'kind': 'grid'})
    return out


def run_shard(spec, seed, col, tier):
    if spec['kind'] == 'grid':
        # every config pair x every phase x a few canonical schedules incl. both tie orders
        scheds = [[], [['H', 'K', 'msg']], [['H', 'K', 'timer']], [['H-e', 'U', 'msg']] * 3, [['H/3', 'K', 'timer']] * 4,
                  [['H/2', 'K+S', 'msg']] * 3, [['small', 'K+S', 'msg']] * 6 + [['H/2', 'U+S', 'msg']],
                  [['H+e', 'K', 'msg']], [['0', 'U', 'msg']] * 5 + [['H', 'U', 'msg']],
                  [['H/2', 'KK', 'msg']] * 3, [['H/2', 'KU', 'msg'], ['H-e', 'UK', 'msg'], ['H/2', 'KUK', 'msg']]]
        for conf in HOLDS:
            for prop in HOLDS:
                for phase in ('est', 'opensent', 'openconfirm'):
                    for sc in (scheds if phase == 'est' else [[]]):
                        for eps in (0.001, 1.0):
                            case = {'conf': conf, 'prop': prop, 'phase': phase, 'eps': eps, 'schedule': sc,
                                    'conf_ka': 60 if eps == 1.0 else 600, 'ka_delay': '0' if eps == 1.0 else 'H/2'}
                            res = run_case(case)
                            col.case(case, nontrivial(case), labels=['grid', 'phase:' + phase])
                            for sig, detail in res:
                                col.fail(sig, case, detail)
        # every kind of UPDATE alone keeps a session alive (arrivals at 2H/3 for three hold times)
        for kind_ in ['UM'] + ['U:%d' % k for k in range(NBODIES)]:
            for conf in (9, 180):
                case = {'conf': conf, 'prop': conf, 'phase': 'est', 'eps': 0.001, 'schedule': [['2H/3', kind_, 'msg']] * 5,
                        'conf_ka': 60, 'ka_delay': '0'}
                res = run_case(case)
                col.case(case, True, labels=['grid-update-kinds'])
                for sig, detail in res:
                    col.fail(sig, case, detail)
        return

    def body(case):
        res = run_case(case)
        col.case(case, nontrivial(case), labels=['phase:' + case['phase'], 'H:%d' % min(case['conf'], case['prop'])])
        for sig, detail in res:
            col.fail(sig, case, detail)
    hyp_run(col, case_strategy, body, seed, spec['examples'])


def replay(case):
    return run_case(case)
