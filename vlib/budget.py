"""Deterministic work budget (DESIGN.md section 4.5).

Counts LINE events (sys.monitoring, Python 3.12) in code objects whose file lies under
<repo>/yabgp.  A call that exceeds its allowance raises BudgetExceeded, which derives from
BaseException so that yabgp's `except Exception` handlers cannot swallow it.  No wall clock is
ever used as a correctness signal.
"""
import sys

from vlib import env

TOOL = 4
_PREFIX = env.REPO.rstrip('/') + '/yabgp/'
_state = {'count': 0, 'limit': None, 'on': False, 'tripped': False}


class BudgetExceeded(BaseException):
    pass


def _line(code, lineno):
    if not code.co_filename.startswith(_PREFIX):
        return sys.monitoring.DISABLE
    s = _state
    s['count'] += 1
    lim = s['limit']
    if lim is not None and s['count'] > lim:
        s['limit'] = None  # raise once; the harness decides what to do next
        s['tripped'] = True
        raise BudgetExceeded('work budget of %d yabgp line events exceeded' % lim)


def enable():
    if _state['on']:
        return
    mon = sys.monitoring
    try:
        mon.use_tool_id(TOOL, 'verif-budget')
    except ValueError:
        pass
    mon.register_callback(TOOL, mon.events.LINE, _line)
    mon.set_events(TOOL, mon.events.LINE)
    _state['on'] = True


def disable():
    if not _state['on']:
        return
    sys.monitoring.set_events(TOOL, 0)
    sys.monitoring.free_tool_id(TOOL)
    _state['on'] = False


def start(limit):
    """Begin a measured region with an allowance of `limit` line events."""
    _state['count'] = 0
    _state['limit'] = limit
    _state['tripped'] = False


def stop():
    """End the region; returns the number of events used."""
    _state['limit'] = None
    return _state['count']


def tripped():
    return _state['tripped']


def allowance(nbytes, a=20000, b=400):
    return a + b * nbytes


def _where(tb):
    """innermost yabgp frame of the traceback: where the work was being spent"""
    loc = '?'
    while tb is not None:
        fn = tb.tb_frame.f_code.co_filename
        if fn.startswith(_PREFIX):
            loc = '%s:%s' % (fn[len(_PREFIX):], tb.tb_frame.f_code.co_name)
        tb = tb.tb_next
    return loc


class region(object):
    """with budget.region(limit) as r: ... ; r.used, r.exceeded"""

    def __init__(self, limit):
        self.limit = limit
        self.used = 0
        self.exceeded = False
        self.where = '?'

    def __enter__(self):
        enable()
        start(self.limit)
        return self

    def __exit__(self, et, ev, tb):
        self.used = stop()
        if et is not None and issubclass(et, BudgetExceeded):
            self.exceeded = True
            self.where = _where(tb)
            return True
        if tripped():
            self.exceeded = True
        return False
