"""Process environment for every check: put the shims and the repository under test on sys.path.

The repository is taken from VERIF_REPO (default /repo) at import time of this module, so every
run sees the current working tree.  Nothing is cached between runs (bytecode writing is off).
"""
import logging
import os
import sys

sys.dont_write_bytecode = True

VERIF_DIR = os.path.dirname(os.path.dirname(os.path.abspath(__file__)))
REPO = os.path.abspath(os.environ.get('VERIF_REPO', '/repo'))
SHIMS = os.path.join(VERIF_DIR, 'vlib', 'shims')
DEPS = os.path.join(VERIF_DIR, '.deps')

_installed = False


def install():
    """Idempotent. Must run before any yabgp import."""
    global _installed
    if _installed:
        return
    for p in (REPO, SHIMS):
        if p in sys.path:
            sys.path.remove(p)
    sys.path.insert(0, REPO)
    sys.path.insert(0, SHIMS)
    if os.path.isdir(DEPS) and DEPS not in sys.path:
        sys.path.append(DEPS)
    if VERIF_DIR not in sys.path:
        sys.path.insert(0, VERIF_DIR)
    os.environ.setdefault('YABGP_VERIF', '1')
    # yabgp logs a lot at INFO/ERROR; the checks never look at log output.
    logging.disable(logging.CRITICAL)
    _installed = True


def repo_file(*parts):
    return os.path.join(REPO, *parts)
