"""Harvest byte strings from the repository's unit tests (AST walk) to seed mutation-based
generators and to triangulate refcodec.  Only literals are read; no test code is executed."""
import ast
import os
import re

from vlib import env

_HEX = re.compile(r'^(?:[0-9a-fA-F]{2}[\s:]?){3,}$')


def harvest(min_len=3, max_len=4096):
    root = os.path.join(env.REPO, 'yabgp', 'tests', 'unit')
    out = {}
    for dp, dn, fn in sorted(os.walk(root)):
        dn.sort()
        for f in sorted(fn):
            if not f.endswith('.py'):
                continue
            path = os.path.join(dp, f)
            try:
                tree = ast.parse(open(path, 'rb').read())
            except SyntaxError:
                continue
            rel = os.path.relpath(path, root)
            for node in ast.walk(tree):
                if isinstance(node, ast.Constant):
                    v = node.value
                    if isinstance(v, bytes) and min_len <= len(v) <= max_len:
                        out.setdefault(v, rel)
                    elif isinstance(v, str) and _HEX.match(v.strip()):
                        h = re.sub(r'[\s:]', '', v)
                        if len(h) % 2 == 0:
                            b = bytes.fromhex(h)
                            if min_len <= len(b) <= max_len:
                                out.setdefault(b, rel)
    return sorted(out.items(), key=lambda kv: (kv[1], kv[0]))


_cache = None


def vectors():
    global _cache
    if _cache is None:
        _cache = [v for v, _ in harvest()]
    return _cache
