"""Helpers shared by the session-level properties: scripted peer, handshake driver, transcript
views.  All peer messages come from refcodec, never from yabgp."""
import struct

from vlib import refcodec as rc
from vlib.sim import Sim

PEER_ID = '10.0.0.2'


def peer_open(sim, hold=None, asn=None, caps=None, version=4, packaging='one-per-param', as4=None,
              bgp_id=PEER_ID, my_as=None):
    c = sim.config
    asn = c['remote_as'] if asn is None else asn
    hold = c['hold_time'] if hold is None else hold
    if caps is None:
        caps = [rc.cap_mp(1, 1), rc.cap(2), rc.cap(128)]
        if as4 is None:
            as4 = True
    return rc.open_msg(asn, hold, bgp_id, caps=caps, version=version, packaging=packaging, as4=as4, my_as=my_as)


def connect(sim):
    """Boot (if needed) and have the peer accept the pending attempt. Returns the connector."""
    if not sim.reactor.connectors:
        sim.boot()
    att = sim.reactor.attempts()
    if not att:
        return None
    c = att[-1]
    sim.reactor.accept(c)
    sim.settle(fire_due=False)
    return c


def establish(sim, hold=None, caps=None, as4=None, upto='ESTABLISHED'):
    """Drive a fresh Sim to OPENSENT / OPENCONFIRM / ESTABLISHED with a correct peer."""
    c = connect(sim)
    if c is None or upto == 'OPENSENT':
        return c
    sim.reactor.peer_send(c, peer_open(sim, hold=hold, caps=caps, as4=as4))
    sim.settle(fire_due=False)
    if upto == 'OPENCONFIRM':
        return c
    sim.reactor.peer_send(c, rc.keepalive())
    sim.settle(fire_due=False)
    return c


def new_established(upto='ESTABLISHED', hold=None, caps=None, as4=None, **config):
    sim = Sim(**config)
    c = establish(sim, hold=hold, caps=caps, as4=as4, upto=upto)
    return sim, c


def view(transcript, kinds=('handler', 'write', 'loseConnection', 'connectionLost', 'escaped', 'connectTCP')):
    """Canonical, time-free projection of a transcript slice."""
    out = []
    for t, kind, cid, payload in transcript:
        if kind in kinds:
            out.append((kind, cid, payload))
    return out


def frames_written(transcript, cid=None):
    """Decode all bytes written (optionally on one connector) into [(type, body)].  Writes are
    concatenated per connector first, since one message may be written in several calls."""
    per = {}
    order = []
    for t, kind, c, payload in transcript:
        if kind == 'write' and (cid is None or c == cid):
            if c not in per:
                per[c] = b''
                order.append(c)
            per[c] += payload
    out = []
    for c in order:
        for mtype, body in rc.split_frames(per[c]):
            out.append((c, mtype, body))
    return out


def notif_of(frames):
    return [(b[0], b[1]) for _, t, b in frames if t == rc.NOTIFICATION and len(b) >= 2]


def marked_update(i, malformed=False, asn4=True):
    """A small UPDATE whose announced prefix identifies it (10.<i/256>.<i%256>.0/24)."""
    pfx = '10.%d.%d.0/24' % ((i >> 8) & 0xFF, i & 0xFF)
    attrs = rc.a_origin(5 if malformed else 0) + rc.a_as_path([(2, [65002])], asn4) + rc.a_next_hop('10.0.0.2')
    return rc.update(attrs=attrs, nlri=rc.prefix4(pfx)), pfx


def u16(v):
    return struct.pack('!H', v)


# ------------------------------------------------------------------------------------------------
# Cooperative peer (DESIGN.md 4.2): a correct RFC speaker used by C02, C13, C10, C16-C19
# ------------------------------------------------------------------------------------------------
def live_connectors(sim):
    out = []
    for c in sim.reactor.connectors:
        tr = c.transport
        if c.state == 'connected' and tr is not None and tr.connected and not tr.disconnecting:
            out.append(c)
    return out


def cooperate(sim, deadline, peer_hold=None, close_inherited=True, bgp_id=PEER_ID, caps=None, as4=None, open_delay=0):
    """Behave as a correct peer until the agent reports ESTABLISHED or virtual time passes
    `deadline`.  Returns the virtual time at which ESTABLISHED was reached, or None.
    Inherited live connections that are not in a clean handshake position are closed first."""
    r = sim.reactor
    r.settle(fire_due=True)
    if sim.state == 'ESTABLISHED':
        return sim.now
    if close_inherited:
        for c in live_connectors(sim):
            r.peer_close(c, clean=True)
            r.settle(fire_due=True)
    progress = {}     # cid -> 'open-sent' | 'ka-sent'
    due = {}          # cid -> virtual time at which the (slow) peer answers the agent's OPEN
    guard = 0
    while sim.now <= deadline and guard < 2000:
        guard += 1
        if sim.state == 'ESTABLISHED':
            return sim.now
        att = r.attempts()
        if att:
            r.accept(att[-1])
            r.settle(fire_due=True)
            continue
        live = live_connectors(sim)
        acted = False
        for c in live:
            st = progress.get(c.id)
            agent_open = any(b[18:19] == b'\x01' for _, b in c.transport.written if len(b) >= 19)
            if st is None and agent_open and open_delay and sim.now < due.setdefault(c.id, sim.now + open_delay):
                continue          # a slow peer: its OPEN comes open_delay seconds after the agent's
            if st is None and agent_open:
                r.peer_send(c, peer_open(sim, hold=peer_hold, bgp_id=bgp_id, caps=caps, as4=as4))
                r.settle(fire_due=True)
                progress[c.id] = 'open-sent'
                acted = True
            elif st == 'open-sent' and sim.state in ('OPENCONFIRM',):
                r.peer_send(c, rc.keepalive())
                r.settle(fire_due=True)
                progress[c.id] = 'ka-sent'
                acted = True
        if acted:
            continue
        t = r.next_time()
        waits = [x for cid, x in due.items() if x > sim.now and progress.get(cid) is None and any(cid == c.id for c in live)]
        if waits and (t is None or min(waits) < t):
            t = min(waits)
        if t is None or t > deadline:
            break
        r.advance_to(t)
        r.settle(fire_due=True)
    return sim.now if sim.state == 'ESTABLISHED' else None


def stay_up(sim, hold, periods=3):
    """Peer sends KEEPALIVE every hold/3 for `periods` hold times; returns True if the agent stays
    ESTABLISHED throughout (hold 0: just lets 3 x 240 s pass in silence)."""
    r = sim.reactor
    if not hold:
        r.advance(3 * 240.0)
        r.settle(fire_due=True)
        return sim.state == 'ESTABLISHED'
    step = hold / 3.0
    # a peer that behaves from now on starts its keepalive schedule now: on a session inherited from an
    # adversarial history the agent's hold timer may already be almost used up
    live = live_connectors(sim)
    if live and sim.state == 'ESTABLISHED':
        r.peer_send(live[-1], rc.keepalive())
        r.settle(fire_due=True)
    for _ in range(3 * periods):
        r.advance(step)
        r.settle(fire_due=True)
        if sim.state != 'ESTABLISHED':
            return False
        live = live_connectors(sim)
        if not live:
            return False
        r.peer_send(live[-1], rc.keepalive())
        r.settle(fire_due=True)
    return sim.state == 'ESTABLISHED'
