"""simnet: deterministic discrete-event stand-in for the Twisted reactor (DESIGN.md section 4.1).

The harness owns the clock, the order of same-instant callbacks and every network event.
Only the reactor API that yabgp uses is provided, with Twisted 20.3 semantics.
"""
import traceback

from twisted.internet import error
from twisted.internet._reactor import reactor as _proxy


class HarnessError(Exception):
    """Raised when the harness itself is misused (never a property violation)."""


class Failure(object):
    """Minimal twisted.python.failure.Failure look-alike."""

    def __init__(self, value):
        self.value = value
        self.type = type(value)

    def getErrorMessage(self):
        return str(self.value)

    def check(self, *types):
        for t in types:
            if isinstance(self.value, t):
                return t
        return None

    def trap(self, *types):
        r = self.check(*types)
        if not r:
            raise self.value
        return r

    def __repr__(self):
        return '<Failure %s>' % (self.type.__name__,)


class Address(object):
    def __init__(self, host, port):
        self.type = 'TCP'
        self.host = host
        self.port = port

    def __repr__(self):
        return 'IPv4Address(TCP, %r, %d)' % (self.host, self.port)


class DelayedCall(object):
    def __init__(self, sim, time, func, args, kw, seq):
        self.sim = sim
        self.time = time
        self.func = func
        self.args = args
        self.kw = kw
        self.cancelled = 0
        self.called = 0
        self.seq = seq

    def getTime(self):
        return self.time

    def cancel(self):
        if self.cancelled:
            raise error.AlreadyCancelled
        elif self.called:
            raise error.AlreadyCalled
        self.cancelled = 1
        self.sim._calls.remove(self)

    def reset(self, secondsFromNow):
        if self.cancelled:
            raise error.AlreadyCancelled
        elif self.called:
            raise error.AlreadyCalled
        self.time = self.sim.now + secondsFromNow
        # Twisted re-heaps; ties are then ordered after calls already due at that instant
        self.sim._seq += 1
        self.seq = self.sim._seq

    def delay(self, secondsLater):
        if self.cancelled:
            raise error.AlreadyCancelled
        elif self.called:
            raise error.AlreadyCalled
        self.time += secondsLater

    def active(self):
        return not (self.cancelled or self.called)

    @property
    def name(self):
        f = self.func
        n = getattr(f, '__name__', None) or repr(f)
        return n


class Transport(object):
    """Client TCP transport of one connector."""

    def __init__(self, sim, connector):
        self.sim = sim
        self.connector = connector
        self.connected = 0
        self.disconnecting = 0
        self.disconnected = 0
        self.protocol = None
        self.written = []          # [(t, bytes)]
        self.closed_by = None      # 'agent' | 'peer' | None
        self.lose_time = None

    # --- API used by protocols
    def write(self, data):
        if not isinstance(data, (bytes, bytearray)):
            raise TypeError('Data must be bytes, not %s' % type(data).__name__)
        if not self.connected:
            self.sim.log('write-dropped', self.connector.id, bytes(data))
            return
        if data:
            self.written.append((self.sim.now, bytes(data)))
            self.sim.log('write', self.connector.id, bytes(data))
            probe = self.sim.probe
            if probe is not None and probe() is not self.protocol:
                self.sim.log('stale-write', self.connector.id, bytes(data))

    def writeSequence(self, seq):
        for d in seq:
            self.write(d)

    def loseConnection(self, _connDone=None):
        if self.connected and not self.disconnecting:
            self.disconnecting = 1
            self.lose_time = self.sim.now
            self.sim.log('loseConnection', self.connector.id, None)
            self.sim._soon.append(('io', self._lost, (error.ConnectionDone(), 'agent'), {}))

    def abortConnection(self):
        if self.connected:
            self.disconnecting = 1
            self.lose_time = self.sim.now
            self.sim.log('abortConnection', self.connector.id, None)
            self.sim._soon.append(('io', self._lost, (error.ConnectionAborted(), 'agent'), {}))

    def setTcpNoDelay(self, enabled):
        pass

    def setTcpKeepAlive(self, enabled):
        pass

    def getHost(self):
        # bound to the configured local address; with the wildcard address the kernel picks the address of the outgoing
        # interface, which may differ from one connection to the next (multi-homed host): sim.egress_hosts, cycled
        hosts = getattr(self.sim, 'egress_hosts', None)
        if self.sim.local_host == '0.0.0.0' and hosts:
            return Address(hosts[(self.connector.id - 1) % len(hosts)], 40000 + self.connector.id)
        return Address(self.sim.local_host, 40000 + self.connector.id)

    def getPeer(self):
        return Address(self.connector.host, self.connector.port)

    def getHandle(self):
        return _Handle(self.sim, self.connector)

    # --- internals
    def _lost(self, exc, by):
        if not self.connected:
            return
        self.connected = 0
        self.disconnected = 1
        self.closed_by = by
        self.sim.log('connectionLost', self.connector.id, type(exc).__name__)
        reason = Failure(exc)
        c = self.connector
        try:
            self.sim._guard('connectionLost', self.protocol.connectionLost, reason)
        finally:
            c.state = 'disconnected'
            self.sim._guard('clientConnectionLost', c.factory.clientConnectionLost, c, reason)


class _Handle(object):
    """the socket behind a transport, as far as yabgp touches it: setsockopt(IPPROTO_TCP, TCP_MD5SIG, struct tcp_md5sig).
    Like the Linux kernel it refuses a key longer than TCP_MD5SIG_MAXKEYLEN (80) with EINVAL."""

    def __init__(self, sim, connector):
        self.sim = sim
        self.connector = connector

    def setsockopt(self, level, opt, value):
        self.sim.log('setsockopt', self.connector.id, (level, opt, len(value) if hasattr(value, '__len__') else value))
        if level == 6 and opt == 14 and isinstance(value, (bytes, bytearray)) and len(value) >= 132:
            import errno
            import struct as _s
            keylen = _s.unpack('H', bytes(value[130:132]))[0]        # native order, as packed by the agent
            if keylen > 80:
                raise OSError(errno.EINVAL, 'Invalid argument')

    def fileno(self):
        return 1000 + self.connector.id


class Connector(object):
    def __init__(self, sim, cid, host, port, factory, timeout, bindAddress):
        self.sim = sim
        self.id = cid
        self.host = host
        self.port = port
        self.factory = factory
        self.timeout = timeout
        self.bindAddress = bindAddress
        self.state = 'disconnected'
        self.transport = None
        self.timeoutID = None
        self.protocol = None
        self.started_at = None

    # --- twisted connector API
    def getDestination(self):
        return Address(self.host, self.port)

    def connect(self):
        if self.state != 'disconnected':
            raise RuntimeError("can't connect in this state")
        self.state = 'connecting'
        self.started_at = self.sim.now
        self.transport = Transport(self.sim, self)
        if self.timeout is not None:
            self.timeoutID = self.sim.callLater(self.timeout, self._tcp_timeout)
        self.sim.log('connectTCP', self.id, (self.host, self.port))
        self.factory.startedConnecting(self)

    def stopConnecting(self):
        if self.state != 'connecting':
            raise error.NotConnectingError("we're not trying to connect") \
                if hasattr(error, 'NotConnectingError') else RuntimeError("we're not trying to connect")
        self.sim.log('stopConnecting', self.id, None)
        self._fail(error.UserError())

    def disconnect(self):
        if self.state == 'connecting':
            self.stopConnecting()
        elif self.state == 'connected':
            self.transport.loseConnection()

    # --- internals / peer side
    def _cancel_timeout(self):
        if self.timeoutID is not None:
            try:
                self.timeoutID.cancel()
            except ValueError:
                pass
            self.timeoutID = None

    def _tcp_timeout(self):
        self.timeoutID = None
        if self.state == 'connecting':
            self.sim.log('tcp-timeout', self.id, None)
            self._fail(error.TimeoutError())

    def _fail(self, exc):
        self._cancel_timeout()
        self.state = 'disconnected'
        self.transport = None
        self.sim.log('connectFailed', self.id, type(exc).__name__)
        self.factory.clientConnectionFailed(self, Failure(exc))

    def _tcp_timeout_name(self):
        return 'tcp_timeout'


Connector._tcp_timeout.__name__ = 'tcp_timeout'


class SimReactor(object):
    """Virtual reactor. Install with .install() so that `twisted.internet.reactor` points to it."""

    MAX_SETTLE = 5000

    def __init__(self, local_host='10.0.0.1', start=0.0):
        self.now = float(start)
        self.local_host = local_host
        self._calls = []
        self._seq = 0
        self._soon = []           # FIFO of (kind, f, args, kw): callFromThread work and I/O completions
        self.connectors = []
        self.transcript = []
        self.errors = []          # [(t, where, exc_type, summary)]
        self.livelock = False
        self.running = True
        self.probe = None         # optional callable -> the protocol object the agent's FSM tracks
        self.defer_io = False     # True: connectionLost after loseConnection waits for an explicit deliver_io()
        self.segments = None      # n: whatever the peer sends in one go reaches the agent in n TCP segments ('bytes': octet by octet)

    def install(self):
        _proxy._install(self)
        return self

    # ------------------------------------------------------------------ reactor API
    def seconds(self):
        return self.now

    def callLater(self, delay, f, *args, **kw):
        assert callable(f), '%r is not callable' % (f,)
        assert delay >= 0, '%s is not greater than or equal to 0 seconds' % (delay,)
        self._seq += 1
        dc = DelayedCall(self, self.now + delay, f, args, kw, self._seq)
        self._calls.append(dc)
        return dc

    def callFromThread(self, f, *args, **kw):
        assert callable(f), '%r is not callable' % (f,)
        self._soon.append(('thread', f, args, kw))

    def callInThread(self, f, *args, **kw):
        self._soon.append(('thread', f, args, kw))

    def connectTCP(self, host, port, factory, timeout=30, bindAddress=None):
        c = Connector(self, len(self.connectors) + 1, host, port, factory, timeout, bindAddress)
        # snapshot for C12: connections / attempts that are still open at the moment of the call
        others = [(o.id, o.state) for o in self.connectors
                  if o.state == 'connecting' or (o.state == 'connected' and o.transport is not None and
                                                 o.transport.connected and not o.transport.disconnecting)]
        self.log('connect-while-open', c.id, others) if others else None
        self.connectors.append(c)
        c.connect()
        return c

    def listenTCP(self, *a, **kw):
        return None

    def suggestThreadPoolSize(self, n):
        pass

    def getThreadPool(self):
        return None

    def getDelayedCalls(self):
        return [c for c in self._calls if c.active()]

    def run(self, *a, **kw):
        pass

    def stop(self):
        self.running = False

    def addSystemEventTrigger(self, *a, **kw):
        pass

    # ------------------------------------------------------------------ bookkeeping
    def log(self, kind, cid, payload):
        self.transcript.append((self.now, kind, cid, payload))

    def _guard(self, where, f, *args, **kw):
        """Run a callback the way the real reactor would: nothing may escape."""
        try:
            return f(*args, **kw)
        except BaseException as e:  # noqa - includes SystemExit and BudgetExceeded
            if isinstance(e, (KeyboardInterrupt, HarnessError)):
                raise
            tb = traceback.extract_tb(e.__traceback__)
            inner = None
            for fr in tb:
                if '/yabgp/' in fr.filename:
                    inner = fr
            loc = '%s:%s' % (inner.filename.split('/yabgp/', 1)[1], inner.name) if inner else \
                  ('%s:%s' % (tb[-1].filename.rsplit('/', 1)[-1], tb[-1].name) if tb else '?')
            self.errors.append((self.now, where, type(e).__name__, loc, str(e)[:200]))
            self.log('escaped', None, (where, type(e).__name__, loc))
            return None

    # ------------------------------------------------------------------ driver API
    def _current(self):
        if object.__getattribute__(_proxy, '_sim') is not self:
            raise HarnessError('stale simulator: a newer Sim was created; yabgp global state now belongs to it')

    def pending(self):
        return sorted((c for c in self._calls if c.active()), key=lambda c: (c.time, c.seq))

    def next_time(self):
        p = self.pending()
        return p[0].time if p else None

    def due(self, t=None):
        t = self.now if t is None else t
        return [c for c in self.pending() if c.time <= t]

    def fire(self, call):
        self._current()
        if not call.active():
            raise HarnessError('firing an inactive call')
        if call.time > self.now:
            self.now = call.time
        self._calls.remove(call)
        call.called = 1
        self.log('timer', None, call.name)
        self._guard('timer:' + call.name, call.func, *call.args, **call.kw)

    def drain_soon(self):
        n = 0
        i = 0
        while i < len(self._soon):
            if self.defer_io and self._soon[i][0] == 'io':
                i += 1
                continue
            kind, f, args, kw = self._soon.pop(i)
            self._guard(kind + ':' + getattr(f, '__name__', '?'), f, *args, **kw)
            n += 1
            if n > self.MAX_SETTLE:
                self.livelock = True
                break
        return n

    def pending_io(self):
        return [e for e in self._soon if e[0] == 'io']

    def deliver_io(self, index=0):
        """complete one deferred I/O event (the connectionLost that follows loseConnection)"""
        self._current()
        ios = [i for i, e in enumerate(self._soon) if e[0] == 'io']
        kind, f, args, kw = self._soon.pop(ios[index])
        self._guard(kind + ':' + getattr(f, '__name__', '?'), f, *args, **kw)

    def settle(self, fire_due=True, order=None):
        self._current()
        """Run everything that the real reactor would run without time passing: queued thread
        calls, I/O completions and (if fire_due) delayed calls that are due now.
        `order`: optional function(list_of_due_calls) -> call to fire next."""
        n = 0
        while True:
            n += self.drain_soon()
            if self.livelock:
                return n
            if not fire_due:
                return n
            due = self.due()
            if not due:
                return n
            call = order(due) if order else due[0]
            self.fire(call)
            n += 1
            if n > self.MAX_SETTLE:
                self.livelock = True
                return n

    def advance_to(self, t, include_equal=True, order=None):
        self._current()
        """Move the clock to t, firing calls on the way in time order (ties: `order` or FIFO)."""
        if t < self.now:
            raise HarnessError('time cannot go backwards')
        n = 0
        while True:
            self.drain_soon()
            p = self.pending()
            if not p:
                break
            first = p[0].time
            if first > t or (first == t and not include_equal):
                break
            ties = [c for c in p if c.time == first]
            call = order(ties) if (order and len(ties) > 1) else ties[0]
            self.fire(call)
            n += 1
            if n > 20000:
                self.livelock = True
                break
        self.now = max(self.now, t)
        self.drain_soon()
        return n

    def advance(self, dt, **kw):
        return self.advance_to(self.now + dt, **kw)

    # ------------------------------------------------------------------ peer-side events
    def attempts(self):
        return [c for c in self.connectors if c.state == 'connecting']

    def live(self):
        return [c for c in self.connectors if c.state == 'connected']

    def open_connectors(self):
        return [c for c in self.connectors if c.state in ('connecting', 'connected')]

    def accept(self, c):
        self._current()
        if c.state != 'connecting':
            raise HarnessError('accept on connector in state %s' % c.state)
        c._cancel_timeout()
        c.state = 'connected'
        self.log('accepted', c.id, None)
        addr = Address(c.host, c.port)
        proto = self._guard('buildProtocol', c.factory.buildProtocol, addr)
        tr = c.transport
        if proto is None:
            tr.connected = 1
            tr.protocol = _NullProtocol()
            tr.loseConnection()
            return None
        c.protocol = proto
        tr.protocol = proto
        tr.connected = 1
        self._guard('connectionMade', proto.makeConnection, tr)
        return proto

    def refuse(self, c, exc=None):
        self._current()
        if c.state != 'connecting':
            raise HarnessError('refuse on connector in state %s' % c.state)
        self._guard('clientConnectionFailed', c._fail, exc or error.ConnectionRefusedError())

    def peer_send(self, c, data):
        self._current()
        """Deliver one TCP segment. Returns True if it was delivered to the protocol."""
        if self.segments and len(data) > 1:
            n = len(data) if self.segments == 'bytes' else max(1, min(int(self.segments), len(data)))
            size = -(-len(data) // n)
            seg, self.segments = self.segments, None
            try:
                res = [self.peer_send(c, data[i:i + size]) for i in range(0, len(data), size)]
            finally:
                self.segments = seg
            return res[0]
        tr = c.transport
        if c.state != 'connected' or tr is None or not tr.connected or tr.disconnecting:
            self.log('peer-data-dropped', c.id, bytes(data))
            return False
        self.log('deliver', c.id, bytes(data))
        self._guard('dataReceived', tr.protocol.dataReceived, bytes(data))
        return True

    def peer_close(self, c, clean=True):
        self._current()
        tr = c.transport
        if c.state != 'connected' or tr is None or not tr.connected:
            raise HarnessError('peer_close on a dead connection')
        self.log('peer-close', c.id, clean)
        tr._lost(error.ConnectionDone() if clean else error.ConnectionLost(), 'peer')


class _NullProtocol(object):
    def connectionLost(self, reason):
        pass

    def dataReceived(self, data):
        pass
