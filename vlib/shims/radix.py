"""Harness-only stand-in for py-radix (dict backed) with the same observable contract for yabgp's use."""
import ipaddress


class RadixNode(object):
    def __init__(self, net):
        self._net = net
        self.data = {}

    @property
    def prefix(self):
        return str(self._net)

    @property
    def network(self):
        return str(self._net.network_address)

    @property
    def prefixlen(self):
        return self._net.prefixlen

    @property
    def family(self):
        return 2 if self._net.version == 4 else 10


def _net(prefix):
    if '/' not in prefix:
        a = ipaddress.ip_address(prefix)
        prefix = '%s/%d' % (prefix, a.max_prefixlen)
    return ipaddress.ip_network(prefix, strict=False)


class Radix(object):
    def __init__(self):
        self._nodes = {}

    def add(self, network=None, masklen=None, packed=None):
        n = _net(network if masklen is None else '%s/%d' % (network, masklen))
        node = self._nodes.get(n)
        if node is None:
            node = self._nodes[n] = RadixNode(n)
        return node

    def delete(self, network=None, masklen=None, packed=None):
        n = _net(network if masklen is None else '%s/%d' % (network, masklen))
        if n not in self._nodes:
            raise KeyError('match not found')
        del self._nodes[n]

    def search_exact(self, network=None, masklen=None, packed=None):
        n = _net(network if masklen is None else '%s/%d' % (network, masklen))
        return self._nodes.get(n)

    def search_best(self, network=None, masklen=None, packed=None):
        n = _net(network if masklen is None else '%s/%d' % (network, masklen))
        best = None
        for k, node in self._nodes.items():
            if k.version == n.version and k.prefixlen <= n.prefixlen and n.subnet_of(k):
                if best is None or k.prefixlen > best._net.prefixlen:
                    best = node
        return best

    def search_worst(self, network=None, masklen=None, packed=None):
        n = _net(network if masklen is None else '%s/%d' % (network, masklen))
        worst = None
        for k, node in self._nodes.items():
            if k.version == n.version and k.prefixlen <= n.prefixlen and n.subnet_of(k):
                if worst is None or k.prefixlen < worst._net.prefixlen:
                    worst = node
        return worst

    def __contains__(self, prefix):
        # py-radix: `prefix in rtree` is True when search_best finds a covering node... actually
        # py-radix implements __contains__ via search_exact semantics on the pure-python version and
        # via iteration on the C version; yabgp only uses it as a guard before search_best, so the
        # permissive reading (a covering prefix exists) is used and the exact one is a subset of it.
        try:
            return self.search_best(prefix) is not None
        except ValueError:
            return False

    def nodes(self):
        return list(self._nodes.values())

    def prefixes(self):
        return [n.prefix for n in self._nodes.values()]

    def __iter__(self):
        return iter(list(self._nodes.values()))
