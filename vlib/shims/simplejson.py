"""Harness-only stand-in: simplejson is not installed; stdlib json has the same API for what yabgp uses."""
from json import *  # noqa
from json import dump, dumps, load, loads, JSONDecodeError  # noqa
