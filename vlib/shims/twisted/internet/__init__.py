from twisted.internet import error  # noqa
from twisted.internet._reactor import reactor  # noqa
