"""The module-level `reactor` singleton delegates to whichever simulator is current."""


class _NoSim(object):
    def __getattr__(self, name):
        raise RuntimeError('twisted shim: no simulator installed (reactor.%s)' % name)


class _ReactorProxy(object):
    def __init__(self):
        object.__setattr__(self, '_sim', _NoSim())

    def _install(self, sim):
        object.__setattr__(self, '_sim', sim)

    def __getattr__(self, name):
        return getattr(object.__getattribute__(self, '_sim'), name)


reactor = _ReactorProxy()
