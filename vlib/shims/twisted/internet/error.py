class AlreadyCalled(ValueError):
    """Tried to cancel an already-called event."""


class AlreadyCancelled(ValueError):
    """Tried to cancel an already-cancelled event."""


class ConnectError(Exception):
    def __init__(self, osError=None, string=""):
        self.osError = osError
        Exception.__init__(self, string)

    def __str__(self):
        s = self.__doc__ or self.__class__.__name__
        if self.args and self.args[0]:
            s = '%s: %s' % (s, self.args[0])
        return '%s.' % s


class ConnectionRefusedError(ConnectError):
    """Connection was refused by other side"""


class TimeoutError(ConnectError):
    """User timeout caused connection failure"""


class TCPTimedOutError(ConnectError):
    """TCP connection timed out"""


class UserError(ConnectError):
    """User aborted connection"""


class ConnectionClosed(Exception):
    """Connection was closed, whether cleanly or non-cleanly."""


class ConnectionLost(ConnectionClosed):
    """Connection to the other side was lost in a non-clean fashion"""

    def __str__(self):
        s = self.__doc__
        if self.args:
            s = '%s: %s' % (s, ' '.join(map(str, self.args)))
        return '%s.' % s


class ConnectionDone(ConnectionClosed):
    """Connection was closed cleanly"""

    def __str__(self):
        s = self.__doc__
        if self.args:
            s = '%s: %s' % (s, ' '.join(map(str, self.args)))
        return '%s.' % s


class ConnectionAborted(ConnectionLost):
    """Connection was aborted locally, using abortConnection"""
