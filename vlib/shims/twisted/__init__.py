"""Harness-only stand-in for the parts of Twisted that yabgp imports.

Never installed into /repo; put first on sys.path by vlib.env before yabgp is imported.
Semantics follow Twisted 20.3 (see DESIGN.md section 4.1)."""
