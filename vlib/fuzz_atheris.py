"""Coverage-guided fuzzing (atheris / libFuzzer) of the decoders with the C11 / C10 oracles inside the target.

Usage: python -m vlib.fuzz_atheris <C11|C10> <out_dir> <seconds> <seed>
The first input octet selects the decoder (C11) or the session state / AS mode (C10); the rest is the
data.  A finding makes the target raise, libFuzzer writes the input to <out_dir>/crash-*; the caller
(vlib/props/c11.py, c10.py) converts artifacts into replay cases.  Statistics go to <out_dir>/stats.json.
"""
import json
import os
import sys
import time


def main():
    prop, out_dir, seconds, seed = sys.argv[1], sys.argv[2], int(sys.argv[3]), int(sys.argv[4])
    from vlib import env
    env.install()
    import atheris
    with atheris.instrument_imports(include=['yabgp']):
        if prop == 'C11':
            from vlib.props import c11 as mod
        else:
            from vlib.props import c10 as mod
    from vlib import budget
    budget.enable()
    os.makedirs(out_dir, exist_ok=True)
    corpus = os.path.join(out_dir, 'corpus')
    os.makedirs(corpus, exist_ok=True)
    from vlib import vectors
    if seed % 2 == 0:       # even shards start from the harvested vectors, odd ones from an empty corpus
        names = sorted(mod.DECODERS) if prop == 'C11' else [0]
        for i, v in enumerate(vectors.vectors()):
            with open(os.path.join(corpus, 'seed-%d' % i), 'wb') as fh:
                fh.write(bytes([(i * 7) % 256]) + v)
    stats = {'execs': 0, 'findings': 0, 'start': time.time()}
    known = set(json.loads(os.environ.get('VERIF_FUZZ_KNOWN', '[]')))

    def target(data):
        stats['execs'] += 1
        res = mod.fuzz_one(data)
        for sig, detail in res:
            if sig in known:
                continue
            stats['findings'] += 1
            raise RuntimeError('FINDING %s :: %s' % (sig, detail))

    argv = [sys.argv[0], corpus, '-max_total_time=%d' % seconds, '-seed=%d' % (seed or 1), '-artifact_prefix=%s/' % out_dir,
            '-max_len=4096', '-print_final_stats=1', '-timeout=30', '-rss_limit_mb=4096']
    atheris.Setup(argv, target)
    atheris.Fuzz()      # does not return (libFuzzer exits the process); statistics are read from stderr by the caller


if __name__ == '__main__':
    main()
