"""Value strategies shared by the codec properties (DESIGN.md section 4.6).  Everything is built by
construction (no filters) and biased to the boundaries named in the property texts."""
import ipaddress

from hypothesis import strategies as st

U16_EDGE = [0, 1, 2, 255, 256, 32767, 32768, 65534, 65535]
U32_EDGE = [0, 1, 2 ** 15, 2 ** 16 - 1, 2 ** 16, 2 ** 24, 2 ** 31 - 1, 2 ** 31, 2 ** 32 - 2, 2 ** 32 - 1]
ASN_EDGE = [1, 2, 23455, 23456, 23457, 64512, 65534, 65535, 65536, 65537, 2 ** 31 - 1, 2 ** 31, 2 ** 32 - 2, 2 ** 32 - 1]
LABEL_EDGE = [0, 1, 2, 3, 15, 16, 17, 1000, 2 ** 19, 2 ** 20 - 2, 2 ** 20 - 1]


def edge(edges, lo, hi):
    return st.one_of(st.sampled_from([e for e in edges if lo <= e <= hi]), st.integers(lo, hi))


u8 = st.integers(0, 255)
u16 = edge(U16_EDGE, 0, 65535)
u32 = edge(U32_EDGE, 0, 2 ** 32 - 1)
asn2 = edge(ASN_EDGE, 1, 65535)
asn4 = edge(ASN_EDGE, 1, 2 ** 32 - 1)
label = edge(LABEL_EDGE, 0, 2 ** 20 - 1)
hold_time = edge([0, 1, 2, 3, 4, 9, 30, 90, 180, 240, 65535], 0, 65535)

ipv4_int = st.one_of(st.sampled_from([0, 1, 0x0A000001, 0x7F000001, 0xC0A80101, 0xE0000001, 0xFFFFFFFE, 0xFFFFFFFF,
                                      0x00FFFFFF, 0x01000000, 0x80000000]),
                     st.integers(0, 2 ** 32 - 1))
ipv4_addr = ipv4_int.map(lambda v: str(ipaddress.IPv4Address(v)))
# unicast-looking addresses for next hops / router ids (callers never use 0.0.0.0)
ipv4_host = st.one_of(st.sampled_from(['10.0.0.1', '192.168.1.1', '1.1.1.1', '172.16.255.254', '223.255.255.254',
                                       '1.0.0.0', '100.64.0.1']),
                      st.integers(0x01000000, 0xDFFFFFFF).map(lambda v: str(ipaddress.IPv4Address(v))))

ipv6_int = st.one_of(
    st.sampled_from([1, 2 ** 32 - 1, 2 ** 32, 0x20010DB8 << 96, (0x20010DB8 << 96) | 1, (0xFE80 << 112) | 1,
                     2 ** 128 - 1, 2 ** 127, (0xFF02 << 112) | 1, 0x0000FFFF00000000 | 0x0A000001,
                     (0x20010DB8 << 96) | (0xFFFF << 64)]),
    st.integers(1, 2 ** 128 - 1))
ipv6_addr = ipv6_int.map(lambda v: str(ipaddress.IPv6Address(v)))
# globally-scoped looking addresses (high bits set) that netaddr never renders in IPv4 form
ipv6_global = st.one_of(
    st.sampled_from(['2001:db8::1', '2001:db8:1:2::', '2a00::1', 'fd00:1:2:3:4:5:6:7', '2001:db8::ffff:ffff']),
    st.integers(2 ** 125, 2 ** 126).map(lambda v: str(ipaddress.IPv6Address(v))))
ipv6_linklocal = st.one_of(st.just('fe80::1'), st.integers(1, 2 ** 64 - 1).map(
    lambda v: str(ipaddress.IPv6Address((0xFE80 << 112) | v))))


@st.composite
def prefix4(draw, lengths=None):
    plen = draw(lengths if lengths is not None else st.integers(0, 32))
    base = draw(st.one_of(st.sampled_from([0, 0xFFFFFFFF, 0x80000000, 0x0A0B0C0D, 0x01010101, 0xC0A8FFFF]),
                          st.integers(0, 2 ** 32 - 1)))
    mask = (0xFFFFFFFF << (32 - plen)) & 0xFFFFFFFF if plen else 0
    return '%s/%d' % (ipaddress.IPv4Address(base & mask), plen)


@st.composite
def prefix6(draw, lengths=None, high=False):
    plen = draw(lengths if lengths is not None else st.integers(0, 128))
    base = draw(st.one_of(st.sampled_from([2 ** 128 - 1, 0x20010DB8 << 96, (0x20010DB8 << 96) | 0x1234567890ABCDEF,
                                           1 << 127, (0xFE80 << 112) | 0xFFFF]),
                          st.integers(0, 2 ** 128 - 1)))
    if high:
        base |= 1 << 125
    mask = ((2 ** 128 - 1) << (128 - plen)) & (2 ** 128 - 1) if plen else 0
    return '%s/%d' % (ipaddress.IPv6Address(base & mask), plen)


def mac_text():
    return st.one_of(st.sampled_from(['00-00-00-00-00-00', 'FF-FF-FF-FF-FF-FF', '00-11-22-33-44-55', '01-00-5E-00-00-01']),
                     st.binary(min_size=6, max_size=6).map(lambda b: '-'.join('%02X' % x for x in b)))


@st.composite
def rd_text(draw):
    t = draw(st.integers(0, 2))
    if t == 0:
        return '%d:%d' % (draw(edge(U16_EDGE, 0, 65535)), draw(u32))
    if t == 1:
        return '%s:%d' % (draw(st.one_of(st.sampled_from(['1.1.1.1', '255.255.255.255', '10.0.0.1', '0.0.0.1']),
                                         st.integers(1, 2 ** 32 - 1).map(lambda v: str(ipaddress.IPv4Address(v))))),
                          draw(u16))
    return '%d:%d' % (draw(edge([65536, 65537, 2 ** 31, 2 ** 32 - 1], 65536, 2 ** 32 - 1)), draw(u16))
