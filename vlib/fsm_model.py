"""Reference RFC 4271 section 8 state machine, profiled for an active-only speaker with
DampPeerOscillations (DESIGN.md section 4.3).  Written from the RFC text, imports nothing from yabgp.

The model answers, for the current model state and an event, the SET of admissible outcomes
(next state names, messages that must be written in order, whether the connection is closed,
whether a new TCP attempt is started).  Where the RFC is explicit the set is a singleton; where it
is silent or contradicts itself the set is wider (see the comments at each cell).
"""

ANY = None     # wildcard subcode

OPEN = ('OPEN',)
KA = ('KEEPALIVE',)


def N(code, sub=ANY):
    return ('NOTIFICATION', code, sub)


class Outcome(object):
    __slots__ = ('states', 'msgs', 'close', 'connect', 'apply', 'why')

    def __init__(self, states, msgs=(), close=False, connect=False, apply=None, why=''):
        self.states = tuple(states)
        self.msgs = tuple(msgs)
        self.close = close
        self.connect = connect
        self.apply = apply
        self.why = why

    def __repr__(self):
        return 'Outcome(states=%r msgs=%r close=%r connect=%r %s)' % (self.states, self.msgs, self.close, self.connect, self.why)


def msg_matches(pattern, observed):
    """observed: ('OPEN',) | ('KEEPALIVE',) | ('NOTIFICATION', code, sub) | ('UPDATE',) ..."""
    if pattern[0] != observed[0]:
        return False
    if pattern[0] == 'NOTIFICATION':
        if pattern[1] != observed[1]:
            return False
        return pattern[2] is ANY or pattern[2] == observed[2]
    return True


class Model(object):
    """Timer configuration: hold (configured), connect_retry, idle_hold; tcp_timeout is the
    environment's (30 s)."""

    LARGE_HOLD = 240.0

    def __init__(self, hold, connect_retry, idle_hold, tcp_timeout=30.0):
        self.conf_hold = hold
        self.crt = float(connect_retry)
        self.idle_hold = float(idle_hold)
        self.tcp_timeout = float(tcp_timeout)
        self.state = 'IDLE'
        self.stopped = False
        self.booted = False
        self.H = None               # negotiated hold time of the current session
        self.hold_due = None
        self.ka_due = None
        self.restart_at = ()        # admissible instants for the automatic restart (Idle, not stopped)
        self.attempt_started = None

    # ------------------------------------------------------------------ helpers
    def copy(self):
        m = Model(self.conf_hold, self.crt, self.idle_hold, self.tcp_timeout)
        m.__dict__.update(self.__dict__)
        return m

    def summary(self, now):
        rel = lambda t: None if t is None else round(t - now, 6)  # noqa: E731
        return (self.state, self.stopped, self.H, rel(self.hold_due), rel(self.ka_due),
                tuple(rel(t) for t in self.restart_at), rel(self.attempt_started))

    def next_due(self):
        """earliest instant at which the model expects a spontaneous reaction (None: never)"""
        c = []
        if self.state == 'IDLE' and not self.stopped and self.restart_at:
            c.append(min(self.restart_at))
        if self.state in ('OPENSENT', 'OPENCONFIRM', 'ESTABLISHED'):
            if self.hold_due is not None:
                c.append(self.hold_due)
            if self.ka_due is not None:
                c.append(self.ka_due)
        return min(c) if c else None

    # state entry actions -------------------------------------------------------------------
    def _to_idle(self, now, restart):
        def f():
            self.state = 'IDLE'
            self.H = None
            self.hold_due = self.ka_due = None
            self.attempt_started = None
            self.restart_at = tuple(sorted(set(now + r for r in restart))) if not self.stopped else ()
        return f

    def _to_connect(self, now):
        def f():
            self.state = 'CONNECT'
            self.stopped = False
            self.restart_at = ()
            self.attempt_started = now
        return f

    def _to_opensent(self, now):
        def f():
            self.state = 'OPENSENT'
            self.hold_due = now + self.LARGE_HOLD
            self.ka_due = None
            self.attempt_started = None
        return f

    def _to_openconfirm(self, now, peer_hold):
        def f():
            self.state = 'OPENCONFIRM'
            self.H = min(self.conf_hold, peer_hold)
            if self.H > 0:
                self.hold_due = now + self.H
                self.ka_due = now + self.H / 3.0
            else:
                self.hold_due = self.ka_due = None
        return f

    def _to_established(self, now):
        def f():
            self.state = 'ESTABLISHED'
            if self.H:
                self.hold_due = now + self.H
        return f

    def _rx_refresh(self, now):
        def f():
            if self.H:
                self.hold_due = now + self.H
        return f

    def _stop(self, now):
        def f():
            self.stopped = True
            self._to_idle(now, ())()
        return f

    def _ka_sent(self, now):
        def f():
            if self.H:
                self.ka_due = now + self.H / 3.0
        return f

    # ------------------------------------------------------------------ events
    def outcomes(self, ev, now):
        """ev: (kind, arg).  Returns a list of admissible Outcomes (never empty)."""
        kind = ev[0]
        s = self.state
        idle_err = self._to_idle(now, (self.idle_hold,))        # error -> Idle, restart after IdleHoldTimer
        IDLE = ('IDLE',)

        # ---------------- operator
        if kind == 'stop':
            if s == 'ESTABLISHED':
                return [Outcome(IDLE, [N(6)], close=True, apply=self._stop(now), why='ManualStop in Established: Cease')]
            if s in ('OPENSENT', 'OPENCONFIRM'):
                # RFC: send Cease; property C13 only demands it when Established -> optional here
                return [Outcome(IDLE, [N(6)], close=True, apply=self._stop(now), why='ManualStop: Cease'),
                        Outcome(IDLE, [], close=True, apply=self._stop(now), why='ManualStop: close without Cease')]
            return [Outcome(IDLE, [], close=False, apply=self._stop(now), why='ManualStop in Idle/Connect')]
        if kind == 'start':
            if s == 'IDLE':
                return [Outcome(('CONNECT',), [], connect=True, apply=self._to_connect(now), why='ManualStart in Idle')]
            return [Outcome((s,), [], why='start events are ignored outside Idle')]

        # ---------------- time
        if kind == 'tick':
            return self._tick(now)

        # ---------------- TCP
        if kind == 'ok':
            if s == 'CONNECT':
                return [Outcome(('OPENSENT',), [OPEN], apply=self._to_opensent(now), why='Connect + TCP established')]
            # connection completes although the FSM is not waiting for it (e.g. stopped meanwhile):
            # the RFC drops the connection in Idle; no OPEN may be sent
            return [Outcome((s,), [], close=True, why='unexpected TCP completion must be closed without OPEN')]
        if kind in ('refused', 'timeout'):
            if s == 'CONNECT':
                return [Outcome(IDLE, [], apply=idle_err, why='Connect + TcpConnectionFails')]
            return [Outcome((s,), [], why='attempt failure outside Connect is ignored')]
        if kind == 'close':     # peer closed the live connection
            if s == 'OPENSENT':
                # RFC: restart ConnectRetryTimer -> Active; profile: Idle accepted, restart by either timer
                f = self._to_idle(now, (self.idle_hold, self.crt))
                return [Outcome(('IDLE', 'ACTIVE'), [], apply=f, why='OpenSent + TcpConnectionFails')]
            if s in ('OPENCONFIRM', 'ESTABLISHED'):
                return [Outcome(IDLE, [], apply=idle_err, why='TcpConnectionFails')]
            return [Outcome((s,), [], why='peer close outside a session')]

        # ---------------- peer messages (only on a live connection)
        if s in ('IDLE', 'CONNECT'):
            # a message on a connection the FSM does not track (or has given up): ignore/close, never a session
            return [Outcome((s,), [], why='message outside a session is ignored'),
                    Outcome((s,), [], close=True, why='message outside a session: connection closed')]

        hdr = {'bad_marker': 1, 'bad_len': 2, 'bad_type': 3}
        if kind == 'bad_len' and len(ev) >= 3 and ev[1] == 2:
            # an UPDATE shorter than 23 octets is a malformed UPDATE body for this agent: tolerated in Established (C10);
            # elsewhere an UPDATE is out of place anyway - ignoring it, Bad Message Length and FSM error are all accepted
            if s == 'ESTABLISHED':
                return [Outcome((s,), [], why='short UPDATE tolerated like any malformed UPDATE body')]
            return [Outcome((s,), [], why='short UPDATE ignored'),
                    Outcome(IDLE, [N(1, 2)], close=True, apply=idle_err, why='BGPHeaderErr'),
                    Outcome(IDLE, [N(5)], close=True, apply=idle_err, why='UPDATE outside Established')]
        if kind in hdr:
            outs = [Outcome(IDLE, [N(1, hdr[kind])], close=True, apply=idle_err, why='BGPHeaderErr')]
            if s == 'ESTABLISHED':
                # section 8.2.2 Established: "any other event -> FSM error" contradicts 6.1; both accepted
                outs.append(Outcome(IDLE, [N(5)], close=True, apply=idle_err, why='header error as FSM error (8.2.2)'))
            return outs

        if kind == 'open':
            flavour, peer_hold = ev[1], ev[2]
            errsub = {'badver': 1, 'badas': 2, 'badas4': 2, 'h1': 6, 'h2': 6}.get(flavour)
            if s == 'OPENSENT':
                if errsub is None:
                    return [Outcome(('OPENCONFIRM',), [KA], apply=self._to_openconfirm(now, peer_hold),
                                    why='OpenSent + valid OPEN')]
                return [Outcome(IDLE, [N(2, errsub)], close=True, apply=idle_err, why='BGPOpenMsgErr')]
            if s == 'OPENCONFIRM':
                if errsub is None:
                    # no collision detection in an active-only speaker: stay, or treat as FSM error / Cease
                    return [Outcome(('OPENCONFIRM',), [], why='second OPEN ignored'),
                            Outcome(IDLE, [N(5)], close=True, apply=idle_err, why='second OPEN as FSM error'),
                            Outcome(IDLE, [N(6)], close=True, apply=idle_err, why='collision Cease')]
                return [Outcome(IDLE, [N(2, errsub)], close=True, apply=idle_err, why='BGPOpenMsgErr'),
                        Outcome(IDLE, [N(5)], close=True, apply=idle_err, why='OPEN in OpenConfirm as FSM error')]
            # Established
            outs = [Outcome(IDLE, [N(5)], close=True, apply=idle_err, why='OPEN in Established: FSM error')]
            if errsub is not None:
                outs.append(Outcome(IDLE, [N(2, errsub)], close=True, apply=idle_err, why='OPEN error (6.2 vs 8.2.2)'))
            else:
                outs.append(Outcome(IDLE, [N(6)], close=True, apply=idle_err, why='collision Cease'))
            return outs

        if kind == 'ka':
            if s == 'OPENSENT':
                return [Outcome(IDLE, [N(5)], close=True, apply=idle_err, why='OpenSent + KEEPALIVE: FSM error')]
            if s == 'OPENCONFIRM':
                return [Outcome(('ESTABLISHED',), [], apply=self._to_established(now), why='OpenConfirm + KEEPALIVE')]
            return [Outcome(('ESTABLISHED',), [], apply=self._rx_refresh(now), why='Established + KEEPALIVE')]

        if kind == 'upd':
            if s == 'ESTABLISHED':
                return [Outcome(('ESTABLISHED',), [], apply=self._rx_refresh(now), why='Established + UPDATE')]
            return [Outcome(IDLE, [N(5)], close=True, apply=idle_err, why='UPDATE before Established: FSM error')]

        if kind == 'rr':
            if s == 'ESTABLISHED':
                return [Outcome(('ESTABLISHED',), [], why='ROUTE-REFRESH processed')]
            # RFC 4271 does not know the message: anything that neither crashes nor reaches Established
            return [Outcome((s,), [], why='ROUTE-REFRESH before Established ignored'),
                    Outcome(IDLE, [N(5)], close=True, apply=idle_err, why='ROUTE-REFRESH before Established: FSM error')]

        if kind == 'notif':
            ver = ev[1] == 'ver'
            if s == 'OPENSENT':
                outs = [Outcome(IDLE, [], close=True, apply=idle_err, why='NOTIFICATION in OpenSent: close')]
                if not ver:
                    outs.append(Outcome(IDLE, [N(5)], close=True, apply=idle_err, why='NotifMsg in OpenSent: FSM error'))
                return outs
            return [Outcome(IDLE, [], close=True, apply=idle_err, why='NOTIFICATION received: close')]

        raise ValueError('unknown event %r' % (ev,))

    # ------------------------------------------------------------------ time
    def _tick(self, now):
        """`now` is the instant the harness advanced to.  Returns the admissible outcomes of
        everything the model has due at or before `now`."""
        s = self.state
        idle_err = self._to_idle(now, (self.idle_hold,))
        if s == 'IDLE':
            if not self.stopped and self.restart_at and now >= max(self.restart_at):
                return [Outcome(('CONNECT',), [], connect=True, apply=self._to_connect(now), why='automatic restart (last admissible instant)')]
            if not self.stopped and any(abs(now - t) < 1e-9 for t in self.restart_at):
                return [Outcome(('CONNECT',), [], connect=True, apply=self._to_connect(now), why='automatic restart'),
                        Outcome(('IDLE', 'ACTIVE'), [], why='restart may also happen at the later admissible instant')]
            return [Outcome((s, 'ACTIVE') if s == 'IDLE' else (s,), [], why='nothing due')]
        if s == 'CONNECT':
            return [Outcome((s,), [], why='nothing due in Connect (single-connection regime)')]
        hold = self.hold_due is not None and now >= self.hold_due - 1e-9
        ka = self.ka_due is not None and now >= self.ka_due - 1e-9 and s in ('OPENCONFIRM', 'ESTABLISHED')
        outs = []
        if hold:
            outs.append(Outcome(('IDLE',), [N(4)], close=True, apply=idle_err, why='HoldTimer_Expires'))
            if ka:
                outs.append(Outcome(('IDLE',), [KA, N(4)], close=True, apply=idle_err,
                                    why='KeepaliveTimer and HoldTimer expire together'))
            return outs
        if ka:
            return [Outcome((s,), [KA], apply=self._ka_sent(now), why='KeepaliveTimer_Expires')]
        return [Outcome((s,), [], why='nothing due')]
