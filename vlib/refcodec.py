"""refcodec: independent RFC encoder, structural walker and decoder (DESIGN.md section 4.4).

Written from RFC 4271, 4760, 1997, 4360, 8092, 4456, 6793, 7911, 5492, 2918, 4724, 8277, 4364,
4659, 7432, 8955, 9012 and draft-ietf-idr-segment-routing-te-policy.  Imports nothing from yabgp.
"""
import ipaddress
import struct

MARKER = b'\xff' * 16
OPEN, UPDATE, NOTIFICATION, KEEPALIVE, ROUTE_REFRESH, ROUTE_REFRESH_CISCO = 1, 2, 3, 4, 5, 128
KNOWN_TYPES = (1, 2, 3, 4, 5, 128)
AS_TRANS = 23456

F_OPT, F_TRANS, F_PARTIAL, F_EXT = 0x80, 0x40, 0x20, 0x10

# RFC category of each attribute type the agent can emit: (optional, transitive)
ATTR_CATEGORY = {
    1: (0, 1), 2: (0, 1), 3: (0, 1), 4: (1, 0), 5: (0, 1), 6: (0, 1), 7: (1, 1), 8: (1, 1),
    9: (1, 0), 10: (1, 0), 14: (1, 0), 15: (1, 0), 16: (1, 1), 17: (1, 1), 18: (1, 1),
    22: (1, 1), 23: (1, 1), 29: (1, 0), 32: (1, 1), 40: (1, 1),
}


class WalkError(Exception):
    """The bytes are not structurally valid BGP."""


# =============================================================================================
# Encoder
# =============================================================================================
def frame(msg_type, body=b'', length=None, marker=MARKER):
    ln = 19 + len(body) if length is None else length
    return marker + struct.pack('!HB', ln, msg_type) + body


def keepalive():
    return frame(KEEPALIVE)


def notification(code, sub, data=b''):
    return frame(NOTIFICATION, struct.pack('!BB', code, sub) + data)


def route_refresh(afi, safi, res=0, msg_type=ROUTE_REFRESH):
    return frame(msg_type, struct.pack('!HBB', afi, res, safi))


def ip4(s):
    return ipaddress.IPv4Address(s).packed if not isinstance(s, int) else struct.pack('!I', s)


def ip6(s):
    return ipaddress.IPv6Address(s).packed if not isinstance(s, int) else s.to_bytes(16, 'big')


# ---- OPEN ------------------------------------------------------------------------------------
def cap(code, value=b''):
    return struct.pack('!BB', code, len(value)) + value


def cap_mp(afi, safi):
    return cap(1, struct.pack('!HBB', afi, 0, safi))


def cap_as4(asn):
    return cap(65, struct.pack('!I', asn))


def cap_addpath(entries):
    return cap(69, b''.join(struct.pack('!HBB', a, s, sr) for a, s, sr in entries))


def cap_extnh(entries):
    return cap(5, b''.join(struct.pack('!HHH', a, s, n) for a, s, n in entries))


def cap_llgr(entries):
    return cap(71, b''.join(struct.pack('!HBB', a, s, f) + struct.pack('!I', t)[1:] for a, s, f, t in entries))


def cap_gr(flags_time=0, entries=()):
    return cap(64, struct.pack('!H', flags_time) + b''.join(struct.pack('!HBB', a, s, f) for a, s, f in entries))


def opt_param(ptype, value):
    return struct.pack('!BB', ptype, len(value)) + value


def open_body(version, my_as, hold, bgp_id, params=b''):
    """params: already encoded optional parameters"""
    bid = bgp_id if isinstance(bgp_id, int) else int(ipaddress.IPv4Address(bgp_id))
    return struct.pack('!BHHIB', version, my_as, hold, bid, len(params)) + params


def open_msg(asn, hold, bgp_id, caps=(), version=4, packaging='one-per-param', as4=None, my_as=None):
    """caps: list of encoded capabilities.  as4: True/False/None(auto: iff asn > 65535)."""
    caps = list(caps)
    want4 = (asn > 65535) if as4 is None else as4
    if want4:
        caps.append(cap_as4(asn))
    field = my_as if my_as is not None else (asn if asn <= 65535 else AS_TRANS)
    if not caps:
        params = b''
    elif packaging == 'all-in-one':
        params = opt_param(2, b''.join(caps))
    elif packaging == 'pairs':
        params = b''.join(opt_param(2, b''.join(caps[i:i + 2])) for i in range(0, len(caps), 2))
    else:
        params = b''.join(opt_param(2, c) for c in caps)
    return frame(OPEN, open_body(version, field, hold, bgp_id, params))


# ---- UPDATE ----------------------------------------------------------------------------------
def prefix_bytes(packed, plen, trailing=0):
    """<length, prefix> with ceil(plen/8) octets; `trailing` is OR-ed into the unused low bits."""
    n = (plen + 7) // 8
    b = bytearray(packed[:n])
    rem = plen % 8
    if rem and n:
        mask = (0xFF << (8 - rem)) & 0xFF
        b[-1] = (b[-1] & mask) | (trailing & (~mask & 0xFF))
    return bytes([plen]) + bytes(b)


def prefix4(pfx, trailing=0, path_id=None):
    """pfx: 'a.b.c.d/len'"""
    net = ipaddress.IPv4Network(pfx, strict=False)
    out = prefix_bytes(net.network_address.packed, net.prefixlen, trailing)
    if path_id is not None:
        out = struct.pack('!I', path_id) + out
    return out


def prefix6(pfx, trailing=0, path_id=None):
    net = ipaddress.IPv6Network(pfx, strict=False)
    out = prefix_bytes(net.network_address.packed, net.prefixlen, trailing)
    if path_id is not None:
        out = struct.pack('!I', path_id) + out
    return out


def attr(flags, type_code, value, ext=None):
    """ext: None = extended length iff needed; True = force; False = forbid (caller's risk)."""
    use_ext = (len(value) > 255) if ext is None else ext
    if use_ext:
        return struct.pack('!BBH', (flags | F_EXT) & 0xFF, type_code, len(value)) + value
    return struct.pack('!BBB', flags & ~F_EXT & 0xFF, type_code, len(value)) + value


def attr_flags(type_code):
    opt, trans = ATTR_CATEGORY.get(type_code, (1, 1))
    return (F_OPT if opt else 0) | (F_TRANS if trans else 0)


def a_origin(v, **kw):
    return attr(attr_flags(1), 1, bytes([v]), **kw)


def as_path_value(segments, asn4):
    out = b''
    for seg_type, asns in segments:
        out += struct.pack('!BB', seg_type, len(asns))
        out += b''.join(struct.pack('!I' if asn4 else '!H', a) for a in asns)
    return out


def a_as_path(segments, asn4, **kw):
    return attr(attr_flags(2), 2, as_path_value(segments, asn4), **kw)


def a_as4_path(segments, **kw):
    return attr(attr_flags(17), 17, as_path_value(segments, True), **kw)


def a_next_hop(v, **kw):
    return attr(attr_flags(3), 3, ip4(v), **kw)


def a_med(v, **kw):
    return attr(attr_flags(4), 4, struct.pack('!I', v), **kw)


def a_local_pref(v, **kw):
    return attr(attr_flags(5), 5, struct.pack('!I', v), **kw)


def a_atomic(**kw):
    return attr(attr_flags(6), 6, b'', **kw)


def a_aggregator(asn, ip, asn4, **kw):
    return attr(attr_flags(7), 7, struct.pack('!I' if asn4 else '!H', asn) + ip4(ip), **kw)


def a_as4_aggregator(asn, ip, **kw):
    return attr(attr_flags(18), 18, struct.pack('!I', asn) + ip4(ip), **kw)


def a_communities(values, **kw):
    return attr(attr_flags(8), 8, b''.join(struct.pack('!I', v) for v in values), **kw)


def a_originator(v, **kw):
    return attr(attr_flags(9), 9, ip4(v), **kw)


def a_cluster_list(vs, **kw):
    return attr(attr_flags(10), 10, b''.join(ip4(v) for v in vs), **kw)


def a_ext_communities(raw8s, **kw):
    return attr(attr_flags(16), 16, b''.join(raw8s), **kw)


def a_large_communities(triples, **kw):
    return attr(attr_flags(32), 32, b''.join(struct.pack('!III', *t) for t in triples), **kw)


def a_mp_reach(afi, safi, nexthop, nlri, **kw):
    v = struct.pack('!HBB', afi, safi, len(nexthop)) + nexthop + b'\x00' + nlri
    return attr(attr_flags(14), 14, v, **kw)


def a_mp_unreach(afi, safi, nlri, **kw):
    return attr(attr_flags(15), 15, struct.pack('!HB', afi, safi) + nlri, **kw)


def a_unknown(type_code, value, flags=F_OPT | F_TRANS, **kw):
    return attr(flags, type_code, value, **kw)


def update_body(withdrawn=b'', attrs=b'', nlri=b''):
    return struct.pack('!H', len(withdrawn)) + withdrawn + struct.pack('!H', len(attrs)) + attrs + nlri


def update(withdrawn=b'', attrs=b'', nlri=b''):
    return frame(UPDATE, update_body(withdrawn, attrs, nlri))


# ---- well-known communities (RFC 1997, 3765, 7611, 7999, 8326, draft route-filter) -----------
WELL_KNOWN_COMMUNITIES = {
    0xFFFF0000: 'PLANNED_SHUT', 0xFFFF0001: 'ACCEPT_OWN', 0xFFFF0002: 'ROUTE_FILTER_TRANSLATED_v4',
    0xFFFF0003: 'ROUTE_FILTER_v4', 0xFFFF0004: 'ROUTE_FILTER_TRANSLATED_v6', 0xFFFF0005: 'ROUTE_FILTER_v6',
    0xFFFF029A: 'BLACKHOLE', 0xFFFFFF01: 'NO_EXPORT', 0xFFFFFF02: 'NO_ADVERTISE',
    0xFFFFFF03: 'NO_EXPORT_SUBCONFED', 0xFFFFFF04: 'NOPEER',
}


def community_text(v):
    return WELL_KNOWN_COMMUNITIES.get(v) or '%d:%d' % (v >> 16, v & 0xFFFF)


# ---- labels, RDs, multiprotocol NLRI ----------------------------------------------------------
def label_stack(labels, bos=True, exp=0):
    out = b''
    for i, lab in enumerate(labels):
        last = i == len(labels) - 1
        v = (lab << 4) | (exp << 1) | (1 if (last and bos) else 0)
        out += struct.pack('!I', v)[1:]
    return out


def rd(text):
    """'asn:nn' (type 0 when asn <= 65535, else type 2) or 'a.b.c.d:nn' (type 1)"""
    a, b = text.rsplit(':', 1)
    if '.' in a:
        return struct.pack('!H', 1) + ip4(a) + struct.pack('!H', int(b))
    if int(a) <= 0xFFFF:
        return struct.pack('!HHI', 0, int(a), int(b))
    return struct.pack('!HIH', 2, int(a), int(b))


def rd_typed(rd_type, a, b):
    if rd_type == 0:
        return struct.pack('!HHI', 0, a, b)
    if rd_type == 1:
        return struct.pack('!H', 1) + ip4(a) + struct.pack('!H', b)
    return struct.pack('!HIH', 2, a, b)


def _net(pfx):
    return ipaddress.ip_network(pfx, strict=False)


def labeled_route(pfx, labels, path_id=None, raw_label=None):
    net = _net(pfx)
    lab = raw_label if raw_label is not None else label_stack(labels)
    n = (net.prefixlen + 7) // 8
    out = bytes([len(lab) * 8 + net.prefixlen]) + lab + net.network_address.packed[:n]
    if path_id is not None:
        out = struct.pack('!I', path_id) + out
    return out


def vpn_route(pfx, rd_bytes, labels, path_id=None, raw_label=None):
    net = _net(pfx)
    lab = raw_label if raw_label is not None else label_stack(labels)
    n = (net.prefixlen + 7) // 8
    out = bytes([(len(lab) + 8) * 8 + net.prefixlen]) + lab + rd_bytes + net.network_address.packed[:n]
    if path_id is not None:
        out = struct.pack('!I', path_id) + out
    return out


WITHDRAW_LABEL = b'\x80\x00\x00'


def mac(text):
    return bytes(int(x, 16) for x in text.replace(':', '-').split('-'))


def esi(esi_type, **f):
    """RFC 7432 section 5: 1 type octet + 9 value octets."""
    if esi_type == 0:
        return b'\x00' + int(f['value']).to_bytes(9, 'big')
    if esi_type == 1:
        return b'\x01' + mac(f['mac']) + struct.pack('!H', f['port_key']) + b'\x00'
    if esi_type == 2:
        return b'\x02' + mac(f['mac']) + struct.pack('!H', f['priority']) + b'\x00'
    if esi_type == 3:
        return b'\x03' + mac(f['mac']) + int(f['ld']).to_bytes(3, 'big')
    if esi_type == 4:
        return b'\x04' + struct.pack('!II', f['router_id'], f['ld']) + b'\x00'
    if esi_type == 5:
        return b'\x05' + struct.pack('!II', f['asn'], f['ld']) + b'\x00'
    raise ValueError(esi_type)


def _ip_field(ip):
    if not ip:
        return b'\x00'
    a = ipaddress.ip_address(ip)
    return bytes([a.max_prefixlen]) + a.packed


def evpn_route(route_type, body):
    return struct.pack('!BB', route_type, len(body)) + body


def evpn_type1(rd_b, esi_b, eth_tag, labels):
    return evpn_route(1, rd_b + esi_b + struct.pack('!I', eth_tag) + label_stack(labels))


def evpn_type2(rd_b, esi_b, eth_tag, mac_text, ip, labels):
    return evpn_route(2, rd_b + esi_b + struct.pack('!I', eth_tag) + b'\x30' + mac(mac_text) + _ip_field(ip) +
                      label_stack(labels))


def evpn_type3(rd_b, eth_tag, ip):
    return evpn_route(3, rd_b + struct.pack('!I', eth_tag) + _ip_field(ip))


def evpn_type4(rd_b, esi_b, ip):
    return evpn_route(4, rd_b + esi_b + _ip_field(ip))


def evpn_type5(rd_b, esi_b, eth_tag, pfx, gw, labels):
    net = _net(pfx)
    return evpn_route(5, rd_b + esi_b + struct.pack('!I', eth_tag) + bytes([net.prefixlen]) +
                      net.network_address.packed + ipaddress.ip_address(gw).packed + label_stack(labels))


# ---- flowspec (RFC 8955) ------------------------------------------------------------------------
FS_OPS = {'=': 0x01, '>': 0x02, '>=': 0x03, '<': 0x04, '<=': 0x05, '!=': 0x06}


def fs_numeric(terms):
    """terms: list of (and_bit, op_text, value).  Value width: minimal of 1/2/4 octets."""
    out = b''
    for i, (and_bit, op, val) in enumerate(terms):
        if val < 256:
            ln, raw = 0, struct.pack('!B', val)
        elif val < 65536:
            ln, raw = 1, struct.pack('!H', val)
        else:
            ln, raw = 2, struct.pack('!I', val)
        o = FS_OPS[op] | (ln << 4) | (0x40 if and_bit else 0) | (0x80 if i == len(terms) - 1 else 0)
        out += bytes([o]) + raw
    return out


def fs_component(ctype, payload):
    return bytes([ctype]) + payload


def fs_prefix4(ctype, pfx):
    net = _net(pfx)
    return bytes([ctype, net.prefixlen]) + net.network_address.packed[:(net.prefixlen + 7) // 8]


def fs_rule(components):
    body = b''.join(components)
    if len(body) < 240:
        return bytes([len(body)]) + body
    return struct.pack('!H', 0xF000 | len(body)) + body


# =============================================================================================
# Reference deframer (oracle of C04)
# =============================================================================================
def deframe(stream):
    """Returns (messages, error, rest): messages = [(type, body)], error = None | (subcode, data)
    for the first framing violation, rest = unconsumed tail (only when no error)."""
    msgs = []
    pos = 0
    n = len(stream)
    while n - pos >= 19:
        if stream[pos:pos + 16] != MARKER:
            return msgs, (1, b''), b''
        length, mtype = struct.unpack('!HB', stream[pos + 16:pos + 19])
        if length < 19 or length > 4096:
            return msgs, (2, struct.pack('!H', length)), b''
        if mtype not in KNOWN_TYPES:
            return msgs, (3, bytes([mtype])), b''
        minlen = {1: 29, 2: 23, 3: 21, 4: 19, 5: 23, 128: 23}[mtype]
        if length < minlen or (mtype == 4 and length != 19) or (mtype in (5, 128) and length != 23):
            return msgs, (2, struct.pack('!H', length)), b''
        if n - pos < length:
            break
        msgs.append((mtype, stream[pos + 19:pos + length]))
        pos += length
    return msgs, None, stream[pos:]


def split_frames(data):
    """Split a byte string that is a concatenation of well-framed messages (lenient: no type
    checks); raises WalkError otherwise."""
    out = []
    pos = 0
    while pos < len(data):
        if len(data) - pos < 19 or data[pos:pos + 16] != MARKER:
            raise WalkError('bad marker / short header at %d' % pos)
        length, mtype = struct.unpack('!HB', data[pos + 16:pos + 19])
        if length < 19 or length > 4096 or pos + length > len(data):
            raise WalkError('header length %d does not match the %d octets present' % (length, len(data) - pos))
        out.append((mtype, data[pos + 19:pos + length]))
        pos += length
    return out


# =============================================================================================
# Decoder (ground truth for what the agent writes)
# =============================================================================================
def decode_open(body):
    if len(body) < 10:
        raise WalkError('OPEN shorter than 10 octets')
    version, my_as, hold, bgp_id, plen = struct.unpack('!BHHIB', body[:10])
    if 10 + plen != len(body):
        raise WalkError('OPEN optional parameter length %d, %d octets follow' % (plen, len(body) - 10))
    caps = []
    pos = 10
    while pos < len(body):
        if pos + 2 > len(body):
            raise WalkError('truncated optional parameter header')
        ptype, pl = body[pos], body[pos + 1]
        if pos + 2 + pl > len(body):
            raise WalkError('optional parameter overruns the OPEN')
        pv = body[pos + 2:pos + 2 + pl]
        pos += 2 + pl
        if ptype != 2:
            caps.append(('param', ptype, pv))
            continue
        q = 0
        while q < len(pv):
            if q + 2 > len(pv):
                raise WalkError('truncated capability header')
            code, cl = pv[q], pv[q + 1]
            if q + 2 + cl > len(pv):
                raise WalkError('capability %d overruns its parameter' % code)
            caps.append((code, pv[q + 2:q + 2 + cl]))
            q += 2 + cl
    asn = my_as
    for c in caps:
        if c[0] == 65 and len(c[1]) == 4:
            asn = struct.unpack('!I', c[1])[0]
    return {'version': version, 'my_as': my_as, 'asn': asn, 'hold': hold,
            'bgp_id': str(ipaddress.IPv4Address(bgp_id)), 'caps': caps}


def decode_notification(body):
    if len(body) < 2:
        raise WalkError('NOTIFICATION shorter than 2 octets')
    return body[0], body[1], body[2:]


def decode_route_refresh(body):
    if len(body) != 4:
        raise WalkError('ROUTE-REFRESH body of %d octets' % len(body))
    afi, res, safi = struct.unpack('!HBB', body)
    return afi, res, safi


def split_attrs(data):
    """-> [(flags, type, value, used_ext)]"""
    out = []
    pos = 0
    while pos < len(data):
        if pos + 3 > len(data):
            raise WalkError('truncated attribute header at %d' % pos)
        flags, tc = data[pos], data[pos + 1]
        if flags & F_EXT:
            if pos + 4 > len(data):
                raise WalkError('truncated extended attribute header at %d' % pos)
            ln = struct.unpack('!H', data[pos + 2:pos + 4])[0]
            hdr = 4
        else:
            ln = data[pos + 2]
            hdr = 3
        if pos + hdr + ln > len(data):
            raise WalkError('attribute %d length %d overruns the attribute block' % (tc, ln))
        out.append((flags, tc, data[pos + hdr:pos + hdr + ln], bool(flags & F_EXT)))
        pos += hdr + ln
    return out


def split_update(body):
    if len(body) < 4:
        raise WalkError('UPDATE body shorter than 4 octets')
    wl = struct.unpack('!H', body[:2])[0]
    if 2 + wl + 2 > len(body):
        raise WalkError('withdrawn routes length %d overruns the message' % wl)
    al = struct.unpack('!H', body[2 + wl:4 + wl])[0]
    if 4 + wl + al > len(body):
        raise WalkError('total path attribute length %d overruns the message' % al)
    return body[2:2 + wl], body[4 + wl:4 + wl + al], body[4 + wl + al:]


def split_prefixes(data, maxlen=32, addpath=False):
    """-> [(path_id|None, plen, prefix_octets)]; every element must end exactly on the boundary"""
    out = []
    pos = 0
    while pos < len(data):
        pid = None
        if addpath:
            if pos + 4 > len(data):
                raise WalkError('truncated path id')
            pid = struct.unpack('!I', data[pos:pos + 4])[0]
            pos += 4
        if pos >= len(data):
            raise WalkError('missing prefix length octet')
        plen = data[pos]
        if plen > maxlen:
            raise WalkError('prefix length %d > %d' % (plen, maxlen))
        n = (plen + 7) // 8
        if pos + 1 + n > len(data):
            raise WalkError('prefix of length %d overruns the field' % plen)
        out.append((pid, plen, data[pos + 1:pos + 1 + n]))
        pos += 1 + n
    return out


def prefix_text(plen, octets, v6=False):
    size = 16 if v6 else 4
    b = bytearray(octets + b'\x00' * (size - len(octets)))
    rem = plen % 8
    if rem:
        b[(plen // 8)] &= (0xFF << (8 - rem)) & 0xFF
    addr = ipaddress.IPv6Address(bytes(b)) if v6 else ipaddress.IPv4Address(bytes(b))
    return '%s/%d' % (addr, plen)


def decode_as_path(value, asn4):
    out = []
    pos = 0
    w = 4 if asn4 else 2
    while pos < len(value):
        if pos + 2 > len(value):
            raise WalkError('truncated AS_PATH segment header')
        st, n = value[pos], value[pos + 1]
        if pos + 2 + n * w > len(value):
            raise WalkError('AS_PATH segment overruns the attribute')
        asns = [int.from_bytes(value[pos + 2 + i * w:pos + 2 + (i + 1) * w], 'big') for i in range(n)]
        out.append((st, asns))
        pos += 2 + n * w
    return out


def decode_update(body, asn4=False, addpath=False):
    """Decode the standard attributes and IPv4 NLRI; MP attributes are returned split but raw."""
    wd, attrs, nlri = split_update(body)
    res = {'withdraw': [prefix_text(pl, o) for _, pl, o in split_prefixes(wd, 32, addpath)],
           'nlri': [prefix_text(pl, o) for _, pl, o in split_prefixes(nlri, 32, addpath)],
           'attr': {}, 'flags': {}, 'order': []}
    for flags, tc, v, _ in split_attrs(attrs):
        res['order'].append(tc)
        res['flags'][tc] = flags
        if tc == 1:
            _need(len(v) == 1, 'ORIGIN length')
            d = v[0]
        elif tc == 2:
            d = decode_as_path(v, asn4)
        elif tc == 3:
            _need(len(v) == 4, 'NEXT_HOP length')
            d = str(ipaddress.IPv4Address(v))
        elif tc in (4, 5):
            _need(len(v) == 4, 'MED/LOCAL_PREF length')
            d = struct.unpack('!I', v)[0]
        elif tc == 6:
            _need(len(v) == 0, 'ATOMIC_AGGREGATE length')
            d = ''
        elif tc == 7:
            _need(len(v) == (8 if asn4 else 6), 'AGGREGATOR length')
            d = (int.from_bytes(v[:-4], 'big'), str(ipaddress.IPv4Address(v[-4:])))
        elif tc == 8:
            _need(len(v) % 4 == 0, 'COMMUNITIES length')
            d = [struct.unpack('!I', v[i:i + 4])[0] for i in range(0, len(v), 4)]
        elif tc == 9:
            _need(len(v) == 4, 'ORIGINATOR_ID length')
            d = str(ipaddress.IPv4Address(v))
        elif tc == 10:
            _need(len(v) % 4 == 0, 'CLUSTER_LIST length')
            d = [str(ipaddress.IPv4Address(v[i:i + 4])) for i in range(0, len(v), 4)]
        elif tc == 16:
            _need(len(v) % 8 == 0, 'EXTENDED_COMMUNITIES length')
            d = [v[i:i + 8] for i in range(0, len(v), 8)]
        elif tc == 32:
            _need(len(v) % 12 == 0, 'LARGE_COMMUNITY length')
            d = [struct.unpack('!III', v[i:i + 12]) for i in range(0, len(v), 12)]
        elif tc == 14:
            _need(len(v) >= 5, 'MP_REACH length')
            afi, safi, nhl = struct.unpack('!HBB', v[:4])
            _need(4 + nhl + 1 <= len(v), 'MP_REACH next hop length')
            d = {'afi': afi, 'safi': safi, 'nexthop': v[4:4 + nhl], 'reserved': v[4 + nhl],
                 'nlri': v[5 + nhl:]}
        elif tc == 15:
            _need(len(v) >= 3, 'MP_UNREACH length')
            afi, safi = struct.unpack('!HB', v[:3])
            d = {'afi': afi, 'safi': safi, 'nlri': v[3:]}
        else:
            d = v
        res['attr'][tc] = d
    return res


def _need(cond, what):
    if not cond:
        raise WalkError('bad ' + what)
