"""Runner: tiers, VERIF_SEED, sharding over processes, merge, failure bucketing, known-findings
ledger, replay files, evidence files and exit codes.  See DESIGN.md sections 2 and 4.7.

Exit codes: 0 held (possibly with KNOWN-FINDING lines); 1 at least one VIOLATION line;
2 harness error (never reported as a violation).
"""
import argparse
import collections
import hashlib
import importlib
import json
import multiprocessing
import os
import sys
import time
import traceback

from vlib import env

VERIF = env.VERIF_DIR
LEDGER = os.path.join(VERIF, 'KNOWN_FINDINGS.txt')
NPROC = int(os.environ.get('VERIF_NPROC', '16'))


# ----------------------------------------------------------------------------------------------
# Collector: what a shard reports
# ----------------------------------------------------------------------------------------------
class HuntHit(Exception):
    """Raised (only in hunt mode) when the hunted signature is hit, so that Hypothesis shrinks."""


def canon(obj):
    return json.dumps(obj, sort_keys=True, separators=(',', ':'), default=_default)


def _default(o):
    if isinstance(o, (bytes, bytearray)):
        return 'hex:' + bytes(o).hex()
    if isinstance(o, (set, frozenset)):
        return sorted(o, key=repr)
    if isinstance(o, tuple):
        return list(o)
    return repr(o)


def h64(s):
    return int.from_bytes(hashlib.blake2b(s.encode() if isinstance(s, str) else s,
                                          digest_size=8).digest(), 'big')


class Collector(object):
    MAX_SAMPLES = 6

    def __init__(self, hunt_sig=None):
        self.evaluations = 0
        self.nontrivial = set()
        self.bulk_nontrivial = 0
        self.classes = collections.Counter()
        self.failures = {}      # sig -> dict(count, case, detail, size)
        self.samples = []
        self.notes = {}
        self.maxima = {}
        self.hunt_sig = hunt_sig
        self.hunt_case = None
        self.hunt_detail = None
        self.inconclusive = False

    # -- cases
    def case(self, case, nontrivial, labels=(), key=None):
        """Count one generated case. `case` must be JSON-able (bytes allowed, rendered as hex)."""
        self.evaluations += 1
        for lab in labels:
            self.classes[lab] += 1
        if nontrivial:
            k = key if key is not None else canon(case)
            hv = h64(k)
            if hv not in self.nontrivial:
                self.nontrivial.add(hv)
                n = len(self.nontrivial)
                # deterministic thinning: keep the 1st, 2nd, 4th, 8th ... distinct non-trivial case
                if n & (n - 1) == 0:
                    self.samples.append(json.loads(canon(case)))
                    if len(self.samples) > self.MAX_SAMPLES:
                        self.samples.pop(1)

    def bulk(self, evaluations, nontrivial, label=None, sample=None):
        """Account for an enumerated block whose cases are distinct by construction."""
        self.evaluations += evaluations
        self.bulk_nontrivial += nontrivial
        if label:
            self.classes[label] += evaluations
        if sample is not None and len(self.samples) < self.MAX_SAMPLES:
            self.samples.append(json.loads(canon(sample)))

    def label(self, lab, n=1):
        self.classes[lab] += n

    def maximum(self, name, value):
        if value > self.maxima.get(name, float('-inf')):
            self.maxima[name] = value

    # -- failures
    def fail(self, sig, case, detail=''):
        c = canon(case)
        f = self.failures.get(sig)
        if f is None:
            f = self.failures[sig] = {'count': 0, 'case': None, 'detail': '', 'size': None}
        f['count'] += 1
        if f['size'] is None or len(c) < f['size']:
            f['size'] = len(c)
            f['case'] = json.loads(c)
            f['detail'] = str(detail)[:2000]
        if self.hunt_sig is not None and sig == self.hunt_sig:
            self.hunt_case = json.loads(c)
            self.hunt_detail = str(detail)[:2000]
            raise HuntHit(sig)

    def to_dict(self):
        return {
            'evaluations': self.evaluations,
            'nontrivial': self.nontrivial,
            'bulk_nontrivial': self.bulk_nontrivial,
            'classes': dict(self.classes),
            'failures': self.failures,
            'samples': self.samples,
            'notes': self.notes,
            'maxima': self.maxima,
            'inconclusive': self.inconclusive,
        }


# ----------------------------------------------------------------------------------------------
# Hypothesis helper
# ----------------------------------------------------------------------------------------------
def hyp_run(col, strategy, body, seed, max_examples, shrink=False, stateful_steps=None):
    """Run `body(case)` over `strategy` with a fixed seed.  `body` reports through the collector
    and must not raise for property failures (except HuntHit in hunt mode)."""
    import hypothesis
    from hypothesis import HealthCheck, Phase, given, settings
    phases = [Phase.generate]
    if shrink or col.hunt_sig is not None:
        phases.append(Phase.shrink)
    st = settings(max_examples=max_examples, database=None, deadline=None, derandomize=False,
                  report_multiple_bugs=False, phases=phases,
                  suppress_health_check=list(HealthCheck), print_blob=False)

    @hypothesis.seed(seed)
    @st
    @given(strategy)
    def _t(case):
        body(case)

    try:
        _t()
    except HuntHit:
        pass
    except BaseException as e:  # noqa
        # Hypothesis wraps/re-raises the HuntHit of the minimal example
        if _is_hunt(e):
            return
        raise


def _is_hunt(e):
    seen = set()
    while e is not None and id(e) not in seen:
        seen.add(id(e))
        if isinstance(e, HuntHit):
            return True
        subs = getattr(e, 'exceptions', None)
        if subs:
            for s in subs:
                if _is_hunt(s):
                    return True
        e = e.__cause__ or e.__context__
    return False


# ----------------------------------------------------------------------------------------------
# Ledger
# ----------------------------------------------------------------------------------------------
def load_ledger(prop):
    """Lines:  known: property=C07 id=F012 sig=<sig> replay=known/F012.json :: text
               fixed: property=C06 <commit> replay=known/F003.json :: text"""
    known, fixed = [], []
    if not os.path.exists(LEDGER):
        return known, fixed
    for raw in open(LEDGER):
        line = raw.strip()
        if not line or line.startswith('#'):
            continue
        kind, _, rest = line.partition(':')
        kind = kind.strip()
        head, _, text = rest.partition(' :: ')
        fields = {}
        extra = []
        for tok in head.split():
            if '=' in tok:
                k, v = tok.split('=', 1)
                fields[k] = v
            else:
                extra.append(tok)
        if fields.get('property') != prop:
            continue
        ent = {'sig': fields.get('sig'), 'replay': fields.get('replay'), 'id': fields.get('id'),
               'text': text.strip(), 'commit': extra[0] if extra else None}
        if kind == 'known':
            known.append(ent)
        elif kind == 'fixed':
            fixed.append(ent)
    return known, fixed


def sig_matches(pattern, sig):
    if pattern is None:
        return False
    if pattern.endswith('*'):
        return sig.startswith(pattern[:-1])
    return pattern == sig


# ----------------------------------------------------------------------------------------------
# Worker entry points (run in fresh processes)
# ----------------------------------------------------------------------------------------------
def _load(prop):
    env.install()
    return importlib.import_module('vlib.props.' + prop.lower())


def _worker(args):
    prop, tier, spec, seed, hunt_sig = args
    t0 = time.time()
    try:
        mod = _load(prop)
        col = Collector(hunt_sig=hunt_sig)
        try:
            mod.run_shard(spec, seed, col, tier)
        except HuntHit:
            pass
        d = col.to_dict()
        d['hunt_case'] = col.hunt_case
        d['hunt_detail'] = col.hunt_detail
        d['wall'] = time.time() - t0
        d['spec'] = spec
        d['seed'] = seed
        return ('ok', d)
    except BaseException:  # noqa
        return ('error', 'shard %r seed %s:\n%s' % (spec, seed, traceback.format_exc()))


def _replay_worker(args):
    prop, case = args
    try:
        mod = _load(prop)
        res = mod.replay(case)
        return ('ok', [(s, str(d)[:2000]) for s, d in res])
    except BaseException:  # noqa
        return ('error', traceback.format_exc())


def _pool(n):
    ctx = multiprocessing.get_context('fork')
    return ctx.Pool(processes=max(1, min(NPROC, n)), maxtasksperchild=1)


def run_replay(prop, case, timeout=600):
    with _pool(1) as p:
        r = p.apply_async(_replay_worker, ((prop, case),))
        try:
            return r.get(timeout=timeout)
        except multiprocessing.TimeoutError:
            return ('error', 'replay timed out after %ss (harness watchdog)' % timeout)


# ----------------------------------------------------------------------------------------------
# Main
# ----------------------------------------------------------------------------------------------
def load_case_file(path):
    with open(path) as fh:
        d = json.load(fh)
    return d


def main(argv=None):
    ap = argparse.ArgumentParser()
    ap.add_argument('prop')
    ap.add_argument('--tier', default=os.environ.get('VERIF_TIER', 'quick'), choices=['quick', 'thorough'])
    ap.add_argument('--replay')
    ap.add_argument('--only', help='run only shards whose name contains this substring')
    ap.add_argument('--no-evidence', action='store_true')
    a = ap.parse_args(argv)
    prop = a.prop.upper()
    seed = int(os.environ.get('VERIF_SEED', '1') or 1)
    os.chdir(VERIF)
    try:
        if a.replay:
            return do_replay(prop, a.replay)
        return do_run(prop, a.tier, seed, a.only, not a.no_evidence)
    except SystemExit:
        raise
    except BaseException:  # noqa
        sys.stderr.write('HARNESS-ERROR property=%s\n%s\n' % (prop, traceback.format_exc()))
        return 2


def do_replay(prop, path):
    d = load_case_file(path)
    status, res = run_replay(prop, d['case'])
    if status != 'ok':
        sys.stderr.write('HARNESS-ERROR during replay\n%s\n' % res)
        return 2
    if res:
        for sig, detail in res:
            print('replay fails: sig=%s :: %s' % (sig, detail))
        print('VIOLATION property=%s replay=%s' % (prop, path))
        return 1
    print('replay passes: property=%s %s' % (prop, path))
    return 0


def do_run(prop, tier, seed, only, write_evidence):
    t0 = time.time()
    dbg = (lambda m: sys.stderr.write('[%6.1fs] %s\n' % (time.time() - t0, m))) if os.environ.get('VERIF_DEBUG') else (lambda m: None)
    mod = _load(prop)
    known, fixed = load_ledger(prop)
    # replay files of earlier runs of this property are stale by definition
    rdir = os.path.join(VERIF, 'replays')
    if os.path.isdir(rdir):
        for fn in os.listdir(rdir):
            if fn.startswith(prop + '-') and fn.endswith('.json'):
                os.remove(os.path.join(rdir, fn))
    out_lines = []
    violations = []          # (sig, replay_path)
    known_hits = {}
    stale_known = []

    # ---- 1. ledger entries are replayed first
    for ent in known:
        case = load_case_file(os.path.join(VERIF, ent['replay']))['case']
        status, res = run_replay(prop, case)
        if status != 'ok':
            sys.stderr.write('HARNESS-ERROR replaying %s\n%s\n' % (ent['replay'], res))
            return 2
        sigs = [s for s, _ in res]
        if any(sig_matches(ent['sig'], s) for s in sigs):
            print('KNOWN-FINDING: property=%s %s [%s sig=%s]' % (prop, ent['text'], ent['id'], ent['sig']))
            known_hits[ent['id']] = 0
        else:
            stale_known.append(ent['id'])
        # a known reproducer that now fails differently is a different violation
        for s, detail in res:
            if not any(sig_matches(k['sig'], s) for k in known):
                path = write_replay(prop, s, case, detail, tier, seed)
                violations.append((s, path))
    for ent in fixed:
        if not ent['replay']:
            continue
        case = load_case_file(os.path.join(VERIF, ent['replay']))['case']
        status, res = run_replay(prop, case)
        if status != 'ok':
            sys.stderr.write('HARNESS-ERROR replaying %s\n%s\n' % (ent['replay'], res))
            return 2
        for s, detail in res:
            if any(sig_matches(k['sig'], s) for k in known):
                continue
            path = write_replay(prop, s, case, 'REGRESSION of fixed finding (%s): %s' % (ent['commit'], detail),
                                tier, seed)
            violations.append((s, path))

    dbg('ledger replayed')
    # ---- 2. generated search
    specs = mod.shards(tier)
    if only:
        specs = [s for s in specs if only in s.get('name', '')]
    jobs = [(prop, tier, spec, seed * 1000 + i, None) for i, spec in enumerate(specs)]
    results = []
    if jobs:
        with _pool(len(jobs)) as p:
            for status, d in p.imap_unordered(_worker, jobs):
                if status != 'ok':
                    sys.stderr.write('HARNESS-ERROR property=%s\n%s\n' % (prop, d))
                    p.terminate()
                    return 2
                results.append(d)
    dbg('shards done')
    results.sort(key=lambda d: d['seed'])

    merged = Collector()
    fail_by_sig = {}
    shard_info = []
    for d in results:
        merged.evaluations += d['evaluations']
        merged.nontrivial |= d['nontrivial']
        merged.bulk_nontrivial += d['bulk_nontrivial']
        merged.classes.update(d['classes'])
        for k, v in d['maxima'].items():
            merged.maximum(k, v)
        for k, v in d['notes'].items():
            merged.notes.setdefault(k, v)
        merged.inconclusive = merged.inconclusive or d['inconclusive']
        for s in d['samples']:
            if len(merged.samples) < 8:
                merged.samples.append(s)
        for sig, f in d['failures'].items():
            g = fail_by_sig.get(sig)
            if g is None:
                fail_by_sig[sig] = dict(f, spec=d['spec'], seed=d['seed'])
            else:
                g['count'] += f['count']
                if f['size'] < g['size']:
                    g.update(case=f['case'], detail=f['detail'], size=f['size'], spec=d['spec'], seed=d['seed'])
        shard_info.append({'name': d['spec'].get('name'), 'seed': d['seed'], 'evaluations': d['evaluations'],
                           'wall_s': round(d['wall'], 2)})

    # ---- 3. classify failures
    excluded = 0
    new_sigs = {}
    failure_table = {}
    for sig, f in sorted(fail_by_sig.items()):
        ent = next((k for k in known if sig_matches(k['sig'], sig)), None)
        failure_table[sig] = {'count': f['count'], 'known': ent['id'] if ent else None}
        if ent:
            excluded += f['count']
            known_hits[ent['id']] = known_hits.get(ent['id'], 0) + f['count']
            if ent['id'] in stale_known:
                # reproducer passes but generated cases still hit the bucket: still a known finding
                print('KNOWN-FINDING: property=%s %s [%s sig=%s]' % (prop, ent['text'], ent['id'], ent['sig']))
                stale_known.remove(ent['id'])
        else:
            new_sigs[sig] = f

    dbg('merged; %d new signatures' % len(new_sigs))
    shrunk = shrink_many(prop, tier, [(sig, f) for sig, f in new_sigs.items()
                                      if getattr(mod, 'SHRINK', True) and f.get('spec') is not None
                                      and f['spec'].get('hypothesis', False)])
    for sig, f in new_sigs.items():
        case, detail = f['case'], f['detail']
        small = shrunk.get(sig)
        if small is not None and len(canon(small[0])) <= len(canon(case)):
            case, detail = small
        path = write_replay(prop, sig, case, detail, tier, seed)
        violations.append((sig, path))

    dbg('shrunk')
    # ---- 4. evidence
    wall = time.time() - t0
    distinct = len(merged.nontrivial) + merged.bulk_nontrivial
    ev = {
        'property_id': prop,
        'tier': tier,
        'seed': seed,
        'level': 'exploration',
        'coverage': {
            'evaluations': merged.evaluations,
            'distinct_nontrivial': distinct,
            'rule': getattr(mod, 'RULE', ''),
            'samples': merged.samples,
            'classes': dict(sorted(merged.classes.items())),
            'failures_by_signature': failure_table,
            'known_findings_hit': known_hits,
            'known_findings_not_reproduced': stale_known,
            'excluded_by_known': excluded,
            'maxima': merged.maxima,
            'notes': merged.notes,
            'shards': shard_info,
            'inconclusive_shards': bool(merged.inconclusive),
            'exhaustive': bool(getattr(mod, 'EXHAUSTIVE', {}).get(tier, False)),
            'repo': env.REPO,
        },
        'assumptions': list(getattr(mod, 'ASSUMPTIONS', [])),
        'wall_s': round(wall, 2),
        'violations': len(violations),
    }
    if write_evidence:
        os.makedirs(os.path.join(VERIF, 'evidence'), exist_ok=True)
        with open(os.path.join(VERIF, 'evidence', prop + '.json'), 'w') as fh:
            json.dump(ev, fh, indent=1, sort_keys=True, default=_default)
            fh.write('\n')

    seen = set()
    for sig, path in violations:
        if (sig, path) in seen:
            continue
        seen.add((sig, path))
        print('violation: sig=%s' % sig)
        print('VIOLATION property=%s replay=%s' % (prop, path))
    print('%s tier=%s seed=%d evaluations=%d distinct_nontrivial=%d known_excluded=%d violations=%d wall=%.1fs'
          % (prop, tier, seed, merged.evaluations, distinct, excluded, len(seen), wall))
    return 1 if violations else 0


def shrink_many(prop, tier, items, max_jobs=None):
    """Second seeded pass per new signature that raises only for that signature, so Hypothesis
    shrinks it.  Jobs run in parallel under one watchdog; on timeout the smallest collected case
    is kept.  At most `max_jobs` signatures are shrunk (the rest keep their smallest collected case)."""
    max_jobs = max_jobs or (16 if tier == 'quick' else 48)
    budget_s = 60 if tier == 'quick' else 420
    items = sorted(items, key=lambda t: t[0])[:max_jobs]
    out = {}
    if not items:
        return out
    with _pool(len(items)) as p:
        pending = [(sig, p.apply_async(_worker, ((prop, tier, f['spec'], f['seed'], sig),))) for sig, f in items]
        deadline = time.time() + budget_s
        for sig, r in pending:
            try:
                status, d = r.get(timeout=max(0.1, deadline - time.time()))
            except multiprocessing.TimeoutError:
                continue
            if status == 'ok' and d.get('hunt_case') is not None:
                out[sig] = (d['hunt_case'], d['hunt_detail'])
        p.terminate()
    return out


def write_replay(prop, sig, case, detail, tier, seed):
    os.makedirs(os.path.join(VERIF, 'replays'), exist_ok=True)
    name = '%s-%016x.json' % (prop, h64(sig))
    path = os.path.join('replays', name)
    with open(os.path.join(VERIF, path), 'w') as fh:
        json.dump({'property': prop, 'sig': sig, 'detail': detail, 'case': case, 'tier': tier, 'seed': seed},
                  fh, indent=1, sort_keys=True, default=_default)
        fh.write('\n')
    return path


if __name__ == '__main__':
    sys.exit(main())
