"""Runs one atheris campaign as a sub-process (thorough tiers of C10 / C11) and converts its artifacts."""
import glob
import json
import os
import re
import shutil
import subprocess
import sys
import tempfile

from vlib import env


def available():
    return os.path.isdir(os.path.join(env.DEPS, 'atheris'))


def campaign(prop, seconds, seed, known_sigs=()):
    """-> (execs, [artifact bytes], raw_tail). Scratch directory is removed before returning."""
    out_dir = tempfile.mkdtemp(prefix='verif-fuzz-')
    try:
        e = dict(os.environ)
        e['PYTHONPATH'] = os.pathsep.join([env.VERIF_DIR, env.DEPS])
        e['VERIF_FUZZ_KNOWN'] = json.dumps(sorted(known_sigs))
        e['VERIF_REPO'] = env.REPO
        p = subprocess.run([sys.executable, '-m', 'vlib.fuzz_atheris', prop, out_dir, str(seconds), str(seed)],
                           cwd=env.VERIF_DIR, env=e, capture_output=True, timeout=seconds + 300)
        err = p.stderr.decode('utf-8', 'replace')
        m = re.search(r'stat::number_of_executed_units:\s*(\d+)', err)
        execs = int(m.group(1)) if m else len(re.findall(r'^#(\d+)', err, re.M))
        if not m:
            mm = re.findall(r'^#(\d+)\s', err, re.M)
            execs = int(mm[-1]) if mm else 0
        arts = []
        for f in sorted(glob.glob(os.path.join(out_dir, 'crash-*')) + glob.glob(os.path.join(out_dir, 'timeout-*'))):
            with open(f, 'rb') as fh:
                arts.append(fh.read())
        return execs, arts, err[-1500:]
    finally:
        shutil.rmtree(out_dir, ignore_errors=True)


def run(prop, mod, col, seconds, seed):
    """drive campaigns until the time is used up, excluding each confirmed finding so that the search continues"""
    if not available():
        col.label('atheris-unavailable')
        col.inconclusive = True
        return
    known = set()
    left = seconds
    total = 0
    rounds = 0
    while left > 5 and rounds < 6:
        import time
        t0 = time.time()
        execs, arts, tail = campaign(prop, left, seed + rounds * 100, known)
        total += execs
        rounds += 1
        left -= int(time.time() - t0)
        if not arts:
            break
        progressed = False
        for data in arts:
            res = mod.fuzz_one(data)
            case = mod.fuzz_case(data)
            for sig, detail in res:
                if sig not in known:
                    known.add(sig)
                    progressed = True
                col.fail(sig, case, detail)
            if not res:
                col.label('atheris-artifact-not-reproduced')
        if not progressed:
            break
    col.bulk(total, 0, label='atheris-execs')
    col.notes['atheris'] = 'coverage-guided campaigns of %ds per shard; even seeds start from the harvested vectors, odd from an empty corpus' % seconds
